#!/usr/bin/env python3
"""Writes MANIFEST.json from the table below (kept as code so the file stays valid and consistent)."""
import json, os
V = os.path.dirname(os.path.abspath(__file__))
BASE_OFF = "cd /repo && go test -mod=mod -json -vet=off -count=1 -timeout 25m ./..."
claimed = {
 "C01": dict(level="fault_enumeration", design="§6 C01, §3.4",
   text="Seeded histories of install/upgrade/rollback/uninstall with flags run against the real actions and real Secret/ConfigMap/memory drivers on a simulated API server; faults (reject, drop, lost response, stall, readiness/hook failure, process death) are placed at random and, in the sweep population, at every seam call of every operation of sampled histories. Ledger invariants I1-I6 are evaluated from Storage.History/DeployedAll after every step, including crashed ones. Exhaustive over single-fault placement per sampled history; histories sampled by seed.",
   note="Trusts the simulated API server's REST semantics and the waiter stub; memory backend gets cluster-side faults only (it cannot fail or survive a crash in reality). Known findings (swallowed storage-write errors, install --replace over a failed revision) are listed in known_findings.json.",
   technique="deterministic simulation: seeded fault/crash injection + single-fault sweep over every seam call; reference ledger invariants"),
}
pending = {}
na = {
 "C04": "pure function of value trees and flag strings: no schedule, clock, fault or second party for a simulator to control (DESIGN §7)",
 "C11": "pure function of the dependency tree and value trees (DESIGN §7)",
 "C15": "pure round-trip function of chart content (DESIGN §7)",
 "C16": "pure function of (archive bytes, initial directory tree); nothing concurrent, timed or faulty (DESIGN §7)",
 "C18": "pure function of index content and version string (DESIGN §7)",
}
for pid in ["C02","C03","C05","C06","C07","C08","C09","C10","C12","C13","C14","C17","C19","C20"]:
    if pid not in claimed:
        pending[pid] = "check not built yet in this session (planned with deterministic simulation, DESIGN §6); not claimed until it runs"
checks = []
for pid in sorted(claimed):
    c = claimed[pid]
    checks.append(dict(property_id=pid, quick_cmd="./check %s quick" % pid, thorough_cmd="./check %s thorough" % pid,
        evidence_file="/verif/evidence/%s.json" % pid, replay_cmd_template="./check %s --replay {path}" % pid, engine="clustersim",
        level_claimed=dict(category=c["level"], text=c["text"], design_ref=c["design"]), level_note=c["note"], technique=c["technique"]))
m = dict(version=1,
  setup_cmd="./check build",
  hooks=dict(guard="verif", enable="go1.26.8 test -c -tags verif (GOTOOLCHAIN=local GOFLAGS=-mod=mod GOPROXY=off GOSUMDB=off) in /verif/sim, replace helm.sh/helm/v4 => /repo",
             baseline_off_cmd=BASE_OFF, source_commits=[], add_only=True),
  engines=[dict(name="clustersim", path="/verif/sim", serves_properties=sorted(claimed), kind_free_text="deterministic simulation (testing/synctest bubble, seeded scheduler, simulated Kubernetes API server, fault injection) driving the real pkg/action, pkg/kube, pkg/storage code")],
  checks=checks,
  notes="Exit codes: 0 held (KNOWN-FINDING lines allowed), 1 VIOLATION printed, 2 infrastructure trouble (build, watchdog, replay mismatch). VERIF_SEED selects the PRNG seed, VERIF_BUDGET_S overrides the wall budget.",
  not_applicable=[dict(property_id=k, reason=v) for k,v in sorted({**na, **pending}.items())])
json.dump(m, open(os.path.join(V,"MANIFEST.json"),"w"), indent=1)
print("wrote MANIFEST.json with", len(checks), "checks")
