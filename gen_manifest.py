#!/usr/bin/env python3
"""Writes MANIFEST.json from the table below (kept as code so the file stays valid and consistent)."""
import json, os
V = os.path.dirname(os.path.abspath(__file__))
BASE_OFF = "cd /repo && go test -mod=mod -json -vet=off -count=1 -timeout 25m ./..."
claimed = {
 "C01": dict(level="fault_enumeration", design="§6 C01, §3.4",
   text="Seeded histories of install/upgrade/rollback/uninstall with flags run against the real actions and real Secret/ConfigMap/memory drivers on a simulated API server; faults (reject, drop, lost response, stall, readiness/hook failure, process death) are placed at random and, in the sweep population, at every seam call of every operation of sampled histories. Ledger invariants I1-I6 are evaluated from Storage.History/DeployedAll after every step, including crashed ones. Exhaustive over single-fault placement per sampled history; histories sampled by seed.",
   note="Trusts the simulated API server's REST semantics and the waiter stub; memory backend gets cluster-side faults only (it cannot fail or survive a crash in reality). Known findings are listed in known_findings.json.",
   technique="deterministic simulation: seeded fault/crash injection + single-fault sweep over every seam call; reference ledger invariants"),
 "C02": dict(level="exploration", design="§6 C02",
   text="Fault-free seeded histories interleaved with out-of-band edits/deletes/annotation toggles of live objects and planted bystanders; after every successful operation the simulated object store is compared with the recorded manifest (manifest-subset-of-live relation written independently of Helm's patch code), obsolete resources must be gone unless the live object carries keep, and every object outside the release's manifests/hooks/records must be byte-identical to its pre-step snapshot.",
   note="The simulated server adds no defaults, so 'every field the manifest specifies' is compared literally; patches are applied with apimachinery's strategic/JSON merge implementations as a real server does.",
   technique="deterministic simulation: simulated API-server object store behind the real kube.Client, out-of-band actor, state comparison oracle"),
 "C03": dict(level="fault_enumeration", design="§6 C03",
   text="Histories in which one install/upgrade/rollback receives exactly one cluster-side fault (one resource call rejected with 403/422/500 or refused, one readiness wait failing, one hook failing), placed at random and, in the sweep, on every resource call / wait / hook of every operation; the oracle checks error return, failed status of the created revision, previous revision still deployed, cleanup-on-fail, and for --atomic the restored manifest, ledger and cluster.",
   note="Faults use codes client-go does not retry, so a rejection is a failure. Atomic clauses are judged only when the injected fault is the only refusal in the operation. Storage and discovery calls are never faulted here (C01 does that).",
   technique="deterministic simulation: single-fault sweep over every cluster call/wait/hook of an operation; ledger + object-store oracle"),
 "C06": dict(level="exploration", design="§6 C06",
   text="Histories (sometimes left pending or failed by a crash) followed by install/upgrade/rollback/uninstall in every dry-run spelling and helm-template shape with random flags, hooks, crds/, CreateNamespace, post-renderer; the request log of the simulated server must contain no POST/PUT/PATCH/DELETE from the operation, the storage seam no write, history and object store must be unchanged, and client-only rendering must send nothing at all.",
   note="helm template is replicated at the action level (DryRun+ClientOnly+Replace as pkg/cmd/template.go sets them); pkg/cmd flag parsing is not run.",
   technique="deterministic simulation: request log of the simulated API server + recording storage seam"),
 "C07": dict(level="exploration", design="§6 C07",
   text="Objects are planted at identities the next install/upgrade will create, with eight flavours of ownership metadata, with and without take-ownership; the oracle demands refusal exactly when a foreign object exists, no mutating request and unchanged history/cluster on refusal, ownership stamps on every manifest object after success, and that every DELETE of the whole run names an identity of the release's manifests, hooks or records.",
   note="Charts without crds/ and CreateNamespace (both are created before the ownership check by design).",
   technique="deterministic simulation: pre-existing cluster state x request ordering, request-log oracle"),
 "C08": dict(level="exploration", design="§6 C08",
   text="Generated template files with many documents (known/unknown kinds, known/unknown/mixed hook events, blank and comment-only documents, CRLF, NOTES, partials) are installed for real and as client-only dry-run; every document must land exactly once, unaltered, in the manifest or the hook list (or nowhere for unknown events), kinds must follow the install order stably, and in the request log every creation of one kind must be answered before the first request of the next kind arrives, under scheduler-chosen answer orders and stalls of the concurrent batch.",
   note="The exported InstallOrder/UninstallOrder tables are taken as the documented order; barrier judged on event sequence numbers of the simulator, not on time.",
   technique="deterministic simulation: seeded interleaving of the concurrent per-kind create batch; request-order oracle + partition oracle"),
 "C12": dict(level="fault_enumeration", design="§6 C12",
   text="Charts with many hooks (all events, negative/equal weights, Job/Pod/ConfigMap, all delete-policy subsets) across install/upgrade/rollback/uninstall histories with left-over hook objects; every single hook is made to fail in turn (sweep) and at random; the ordered request log and waiter log are checked for weight/name order, one-at-a-time execution, before-hook-creation deletes, policy-driven deletion, the pre-hook gate on release resources, post-hook failure failing the operation, and disabled hooks.",
   note="Hook outcomes are scripted through the waiter stub; atomic operations are excluded (their internal rollback/uninstall fire further events). Expected hooks come from the generator's own chart description, not from Helm's parser.",
   technique="deterministic simulation: scripted hook outcomes, every hook failing in turn; ordered request-log oracle"),
}
pending = {}
na = {
 "C04": "pure function of value trees and flag strings: no schedule, clock, fault or second party for a simulator to control (DESIGN §7)",
 "C11": "pure function of the dependency tree and value trees (DESIGN §7)",
 "C15": "pure round-trip function of chart content (DESIGN §7)",
 "C16": "pure function of (archive bytes, initial directory tree); nothing concurrent, timed or faulty (DESIGN §7)",
 "C18": "pure function of index content and version string (DESIGN §7)",
}
for pid in ["C02","C03","C05","C06","C07","C08","C09","C10","C12","C13","C14","C17","C19","C20"]:
    if pid not in claimed:
        pending[pid] = "check not built yet in this session (planned with deterministic simulation, DESIGN §6); not claimed until it runs"
checks = []
for pid in sorted(claimed):
    c = claimed[pid]
    checks.append(dict(property_id=pid, quick_cmd="./check %s quick" % pid, thorough_cmd="./check %s thorough" % pid,
        evidence_file="/verif/evidence/%s.json" % pid, replay_cmd_template="./check %s --replay {path}" % pid, engine="clustersim",
        level_claimed=dict(category=c["level"], text=c["text"], design_ref=c["design"]), level_note=c["note"], technique=c["technique"]))
m = dict(version=1,
  setup_cmd="./check build",
  hooks=dict(guard="verif", enable="go1.26.8 test -c -tags verif (GOTOOLCHAIN=local GOFLAGS=-mod=mod GOPROXY=off GOSUMDB=off) in /verif/sim, replace helm.sh/helm/v4 => /repo",
             baseline_off_cmd=BASE_OFF, source_commits=[], add_only=True),
  engines=[dict(name="clustersim", path="/verif/sim", serves_properties=sorted(claimed), kind_free_text="deterministic simulation (testing/synctest bubble, seeded scheduler, simulated Kubernetes API server, fault injection) driving the real pkg/action, pkg/kube, pkg/storage code")],
  checks=checks,
  notes="Exit codes: 0 held (KNOWN-FINDING lines allowed), 1 VIOLATION printed, 2 infrastructure trouble (build, watchdog, replay mismatch). VERIF_SEED selects the PRNG seed, VERIF_BUDGET_S overrides the wall budget.",
  not_applicable=[dict(property_id=k, reason=v) for k,v in sorted({**na, **pending}.items())])
json.dump(m, open(os.path.join(V,"MANIFEST.json"),"w"), indent=1)
print("wrote MANIFEST.json with", len(checks), "checks")
