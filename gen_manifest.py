#!/usr/bin/env python3
"""Writes MANIFEST.json from the table below (kept as code so the file stays valid and consistent)."""
import json, os
V = os.path.dirname(os.path.abspath(__file__))
BASE_OFF = "cd /repo && go test -mod=mod -json -vet=off -count=1 -timeout 25m ./..."
claimed = {
 "C01": dict(level="fault_enumeration", design="§6 C01, §3.4",
   text="Seeded histories of install/upgrade/rollback/uninstall with flags run against the real actions and real Secret/ConfigMap/memory drivers on a simulated API server; faults (reject, drop, lost response, stall, readiness/hook failure, process death) are placed at random and, in the sweep population, at every seam call of every operation of sampled histories. Ledger invariants I1-I6 are evaluated from Storage.History/DeployedAll after every step, including crashed ones. Exhaustive over single-fault placement per sampled history; histories sampled by seed.",
   note="Trusts the simulated API server's REST semantics and the waiter stub; memory backend gets cluster-side faults only (it cannot fail or survive a crash in reality). Known findings are listed in known_findings.json.",
   technique="deterministic simulation: seeded fault/crash injection + single-fault sweep over every seam call; reference ledger invariants"),
 "C02": dict(level="exploration", design="§6 C02",
   text="Fault-free seeded histories interleaved with out-of-band edits/deletes/annotation toggles of live objects and planted bystanders; after every successful operation the simulated object store is compared with the recorded manifest (manifest-subset-of-live relation written independently of Helm's patch code), obsolete resources must be gone unless the live object carries keep, and every object outside the release's manifests/hooks/records must be byte-identical to its pre-step snapshot.",
   note="The simulated server adds no defaults, so 'every field the manifest specifies' is compared literally; patches are applied with apimachinery's strategic/JSON merge implementations as a real server does.",
   technique="deterministic simulation: simulated API-server object store behind the real kube.Client, out-of-band actor, state comparison oracle"),
 "C03": dict(level="fault_enumeration", design="§6 C03",
   text="Histories in which one install/upgrade/rollback receives exactly one cluster-side fault (one resource call rejected with 403/422/500 or refused, one readiness wait failing, one hook failing), placed at random and, in the sweep, on every resource call / wait / hook of every operation; the oracle checks error return, failed status of the created revision, previous revision still deployed, cleanup-on-fail, and for --atomic the restored manifest, ledger and cluster.",
   note="Faults use codes client-go does not retry, so a rejection is a failure. Atomic clauses are judged only when the injected fault is the only refusal in the operation. Storage and discovery calls are never faulted here (C01 does that).",
   technique="deterministic simulation: single-fault sweep over every cluster call/wait/hook of an operation; ledger + object-store oracle"),
 "C06": dict(level="exploration", design="§6 C06",
   text="Histories (sometimes left pending or failed by a crash) followed by install/upgrade/rollback/uninstall in every dry-run spelling and helm-template shape with random flags, hooks, crds/, CreateNamespace, post-renderer; the request log of the simulated server must contain no POST/PUT/PATCH/DELETE from the operation, the storage seam no write, history and object store must be unchanged, and client-only rendering must send nothing at all.",
   note="Operations are driven both at the action level and, in a fifth of the dry-run steps, through the real command line layer (pkg/cmd: helm template / install / upgrade / uninstall / rollback with their dry-run spellings, built on the simulated process's Configuration through the guarded hook VerifNewRootCmd), so flag parsing and the wiring in pkg/cmd/template.go and install.go are part of what is judged. Post-renderer binaries are not run through the CLI.",
   technique="deterministic simulation: request log of the simulated API server + recording storage seam"),
 "C07": dict(level="exploration", design="§6 C07",
   text="Objects are planted at identities the next install/upgrade will create, with eight flavours of ownership metadata, with and without take-ownership; the oracle demands refusal exactly when a foreign object exists, no mutating request and unchanged history/cluster on refusal, ownership stamps on every manifest object after success, and that every DELETE of the whole run names an identity of the release's manifests, hooks or records.",
   note="Charts without crds/ and CreateNamespace (both are created before the ownership check by design).",
   technique="deterministic simulation: pre-existing cluster state x request ordering, request-log oracle"),
 "C08": dict(level="exploration", design="§6 C08",
   text="Generated template files with many documents (known/unknown kinds, known/unknown/mixed hook events, blank and comment-only documents, CRLF, NOTES, partials) are installed for real and as client-only dry-run; every document must land exactly once, unaltered, in the manifest or the hook list (or nowhere for unknown events), kinds must follow the install order stably, and in the request log every creation of one kind must be answered before the first request of the next kind arrives, under scheduler-chosen answer orders and stalls of the concurrent batch.",
   note="The exported InstallOrder/UninstallOrder tables are taken as the documented order; barrier judged on event sequence numbers of the simulator, not on time.",
   technique="deterministic simulation: seeded interleaving of the concurrent per-kind create batch; request-order oracle + partition oracle"),
 "C12": dict(level="fault_enumeration", design="§6 C12",
   text="Charts with many hooks (all events, negative/equal weights, Job/Pod/ConfigMap, all delete-policy subsets) across install/upgrade/rollback/uninstall histories with left-over hook objects; every single hook is made to fail in turn (sweep) and at random; the ordered request log and waiter log are checked for weight/name order, one-at-a-time execution, before-hook-creation deletes, policy-driven deletion, the pre-hook gate on release resources, post-hook failure failing the operation, and disabled hooks.",
   note="Hook outcomes are scripted through the waiter stub; atomic operations are judged only for the no-hooks clause (their internal rollback/uninstall fire further events). Expected hooks come from the generator's own chart description, not from Helm's parser.",
   technique="deterministic simulation: scripted hook outcomes, every hook failing in turn; ordered request-log oracle"),
 "C09": dict(level="exploration", design="§6 C09, §3.3",
   text="Groups of two (uniform and PCT schedules) and three (PCT, bounded preemptions) concurrent install / install --replace / upgrade (with and without history limit) on one release, from an empty, deployed or uninstalled history, as separate processes on Secret/ConfigMap storage and sharing one memory driver; the scheduler interleaves them at every storage and cluster call. The oracle rebuilds the timeline of record writes and checks one creator per revision, losers failing with the documented errors without touching any release resource, no creation while another operation's revision is pending, and ledger well-formedness at quiescence. A second population runs the same groups in a -race build in co-release mode (answers computed serially, goroutines released together so that no happens-before edge hides Helm's own races).",
   note="Race reports are classified by the packages of the two accesses and the backend; which conflicting pair the detector reports first depends on real timing, so a race replay is accepted when the same class reappears within four attempts. Logic verdicts of the race tier are ignored (judged in the deterministic tier).",
   technique="deterministic simulation: seeded + PCT interleavings at storage/cluster-call granularity; race detector under co-release scheduling"),
 "C10": dict(level="exploration", design="§6 C10", engine="storesim",
   text="Seeded sequences of up to 30 driver calls (create/get/update/delete/list/query) over a small key space with generated releases (unicode, large manifests, nested values, hooks, timestamps with zones, user labels, names with dots, '.v', digits, maximum length) are executed on the memory, Secret and ConfigMap drivers - the latter two through the real client-go stack on the simulated API server - and compared call by call with a reference map and across backends; a fault population rejects, drops or loses the response of individual API calls and demands failure without corruption.",
   note="Equality is on the JSON projection of the release plus user labels (subchart objects hang off an unexported field and are not representable in a stored record). Query keys are the four the statement names.",
   technique="deterministic simulation: model-based comparison against a reference map on three backends, API-call fault injection"),
 "C13": dict(level="exploration", design="§6 C13",
   text="Chains of 2-7 upgrades and rollbacks with every value flag, generated value trees (nesting, nulls, type changes), chart defaults changing between versions and failed upgrades in between (so that the deployed revision is not the last one); the recorded Config of each new revision is compared with a reference computed straight from the statement, and the values templates actually saw are read from a probe ConfigMap.",
   note="Null-valued keys are stripped on both sides of the Config comparison; the effective-values clause is judged only on trees without nulls and without table/scalar conflicts (their resolution is not part of the statement).",
   technique="deterministic simulation: multi-step histories with injected failures; reference value model"),
 "C14": dict(level="exploration", design="§6 C14",
   text="install / upgrade (reset, reuse, reset-then-reuse onto a chart version whose schema rejects the carried values) / helm-template-shaped installs whose final values violate, by construction, one rule of the root chart's or an enabled/disabled/aliased subchart's schema, with and without skip-schema-validation; the oracle demands an error naming the chart, an empty mutating-request log and an untouched store, and no rejection when the schema is satisfied, the subchart is disabled, or validation is skipped.",
   note="Schema semantics are only exercised for a constructed family (type, required, enum, minimum/maximum, additionalProperties) where validity is known by construction; lint is not run.",
   technique="deterministic simulation: request-log and storage-log oracle in front of a constructed schema family"),
 "C20": dict(level="exploration", design="§6 C20, §12",
   text="Four slices. (a) Stored release records are damaged between steps of a history (bit flip, truncation, zero fill, garbage, base64 of non-gzip, JSON null/array/object without info, missing data key) on the Secret and ConfigMap backends; history, list, get, status, get values, upgrade, rollback and uninstall then run against the damaged store. Every operation runs under a recover guard (panic = violation), the scheduler's step budget owns 'no hang', and History must keep returning every undamaged record. (b) Index files, chart archives and provenance files are bit-flipped, truncated, emptied, wrapped in junk or stalled in transit on the simulated network; DownloadIndexFile, LoadIndexFile, IndexFile.Get, DownloadTo with verification and loader.Load must answer with a result or an error within the client time-out, never panic. (c) A chart directory or archive, its values file, ignore file and a plugin manifest are written to a scratch disk and hit by disk faults (short write, lost write, torn write against an older version of the file, flipped bit, zeroed block, duplicated block, missing file; for archives also damage of the tar stream and of the compressed bytes), biased to land right after structural tokens; ignore.ParseFile, ReadValuesFile, loader.Load, Chart.Validate, dry-run install (dependency processing, values, schema, rendering, sorting, notes), CheckDependencies, lint.RunAll and plugin.LoadDir/LoadAll/PrepareCommand must return (panic or 45 s without returning = violation), and the undamaged chart must be accepted. (d) Self-referential templates (include/template/tpl cycles, direct and through values) must end in an error; a fatal stack overflow kills the worker process and is reported from the driver's crash handling.",
   note="Only the fault-shaped part of C20 is claimed: corrupted stored records, downloads damaged in transit, files damaged on disk (byte-level disk faults only, no grammar-aware mutation). Free-form mutation of --set strings, of values given on the command line and of rendered manifest streams is input fuzzing without any schedule, clock or fault and is out of this technique (DESIGN §7).",
   technique="deterministic simulation: stored-record corruption as an injected disk fault between operations"),
 "C05": dict(level="exploration", design="§4, §6 C05", engine="rendersim",
   text="Generated charts (partials, include/tpl nesting, range over maps, toYaml/toJson of nested maps, .Files.Get/Glob/AsConfig, hooks, several subcharts with their own NOTES.txt, schemas with $ref in several URL forms) are rendered through Install(dry-run, client-only) repeatedly (fresh map iteration orders), with permuted template/file/dependency order, under changed environment variables and working directory, with a canary file outside the chart taking four different contents, and concurrently (engine.Render on one shared chart; dry-run installs on copies). Manifest, ordered hooks and notes must be byte-identical, no canary token may appear, env/expandenv must be unavailable, and a counting resolver must see no call with DNS disabled.",
   note="No scheduler can decide Go's map iteration order: a map-order dependence is found as a difference between repeated renders and replay is probabilistic. Relative $ref forms resolve against / where the harness plants nothing, so only absolute file:// references are decisive.",
   technique="deterministic simulation (environment/repetition/concurrency perturbation of renders; canary files, variables and resolver)"),
 "C17": dict(level="exploration", design="§5, §6 C17", engine="netsim",
   text="A chart is packaged and clear-signed in-run with generated keys, served by the simulated network and downloaded with verification required; in transit the archive or the .prov file is bit-flipped, byte-substituted, truncated, emptied or wrapped in junk, the archive is served under another file name, or another chart's .prov is served; keyrings hold the signer, the signer and another key, only another key, or nothing. Accepted implies untampered archive bytes, trusted signer, matching file name, own provenance and the right digest; an intact download signed by a trusted key must pass.",
   note="Narrow claim: the channel-fault slice of the property. Mutations that leave the signed content intact (junk before the armor) may legitimately be accepted; single-bit enumeration of every position is sampled, not exhaustive.",
   technique="deterministic simulation: corrupting channel between repository and verifier, keyring configurations"),
 "C19": dict(level="exploration", design="§5, §6 C19", engine="netsim",
   text="Repositories with unique credentials are placed on a simulated multi-origin network; index entries point at relative, same-origin (also upper-case, default-port-spelled, trailing-dot), other-port, other-scheme, sub-domain, sibling, unrelated, look-alike and userinfo-trick URLs, optionally answering 302 to yet another origin, with and without pass-credentials, with provenance fetches; the download runs through the HTTP getter, ChartDownloader by reference and by URL, ChartPathOptions.LocateChart (--repo) and Manager.Update with several repositories. Every request reaching any virtual host is logged with its decoded Authorization header and judged against the owning repository's origin.",
   note="Redirect follow-ups by net/http to the same host or a sub-domain keep the header (standard library behaviour; the statement only forbids unrelated domains on redirect), including a same-host https->http downgrade. LocateChart is reached through the guarded getter hook.",
   technique="deterministic simulation: simulated multi-origin network, per-origin credential observation"),
}
pending = {}
na = {
 "C04": "pure function of value trees and flag strings: no schedule, clock, fault or second party for a simulator to control (DESIGN §7)",
 "C11": "pure function of the dependency tree and value trees (DESIGN §7)",
 "C15": "pure round-trip function of chart content (DESIGN §7)",
 "C16": "pure function of (archive bytes, initial directory tree); nothing concurrent, timed or faulty (DESIGN §7)",
 "C18": "pure function of index content and version string (DESIGN §7)",
}
for pid in ["C02","C03","C05","C06","C07","C08","C09","C10","C12","C13","C14","C17","C19","C20"]:
    if pid not in claimed:
        pending[pid] = "check not built yet in this session (planned with deterministic simulation, DESIGN §6); not claimed until it runs"
checks = []
for pid in sorted(claimed):
    c = claimed[pid]
    checks.append(dict(property_id=pid, quick_cmd="./check %s quick" % pid, thorough_cmd="./check %s thorough" % pid,
        evidence_file="/verif/evidence/%s.json" % pid, replay_cmd_template="./check %s --replay {path}" % pid, engine=c.get("engine", "clustersim"),
        level_claimed=dict(category=c["level"], text=c["text"], design_ref=c["design"]), level_note=c["note"], technique=c["technique"]))
m = dict(version=1,
  setup_cmd="./check build",
  hooks=dict(guard="verif", enable="go1.26.8 test -c -tags verif (GOTOOLCHAIN=local GOFLAGS=-mod=mod GOPROXY=off GOSUMDB=off) in /verif/sim, replace helm.sh/helm/v4 => /repo",
             baseline_off_cmd=BASE_OFF, source_commits=["b77169a", "60b5a28"], add_only=True),
  engines=[
    dict(name="clustersim", path="/verif/sim", serves_properties=sorted(k for k,v in claimed.items() if v.get("engine","clustersim")=="clustersim"), kind_free_text="deterministic simulation (testing/synctest bubble, seeded scheduler, simulated Kubernetes API server, fault injection) driving the real pkg/action, pkg/kube, pkg/storage code"),
    dict(name="storesim", path="/verif/sim/oracle_c10.go", serves_properties=["C10"], kind_free_text="model-based comparison of the three storage drivers on the simulated API server"),
    dict(name="rendersim", path="/verif/sim/oracle_c05.go", serves_properties=["C05"], kind_free_text="environment / repetition / concurrency perturbation of chart rendering"),
    dict(name="netsim", path="/verif/sim/netsim.go", serves_properties=["C17","C19","C20"], kind_free_text="in-memory multi-origin network behind a real http.Transport, scripted servers, transit damage")],
  checks=checks,
  notes="Exit codes: 0 held (KNOWN-FINDING lines allowed), 1 VIOLATION printed, 2 infrastructure trouble (build, watchdog, replay mismatch). VERIF_SEED selects the PRNG seed, VERIF_BUDGET_S overrides the wall budget.",
  not_applicable=[dict(property_id=k, reason=v) for k,v in sorted({**na, **pending}.items())])
json.dump(m, open(os.path.join(V,"MANIFEST.json"),"w"), indent=1)
print("wrote MANIFEST.json with", len(checks), "checks")
