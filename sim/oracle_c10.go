package sim

// C10 — all storage backends behave as the same faithful key-value store.
//
// One Plan is a sequence of driver calls; it is executed on the memory,
// Secret and ConfigMap drivers (the latter two through the real client-go
// stack on the simulated API server) and compared call by call with a
// reference map and across backends.

import (
	"encoding/json"
	"errors"
	"fmt"
	"sort"
	"strings"
	"testing"
	"testing/synctest"
	"time"

	"k8s.io/client-go/kubernetes"
	"k8s.io/client-go/rest"

	chart "helm.sh/helm/v4/pkg/chart/v2"
	release "helm.sh/helm/v4/pkg/release/v1"
	"helm.sh/helm/v4/pkg/storage/driver"
	helmtime "helm.sh/helm/v4/pkg/time"
)

type StoreOp struct {
	Op      string            `json:"op"` // create get update delete list query
	Name    string            `json:"name,omitempty"`
	Rev     int               `json:"rev,omitempty"`
	Status  string            `json:"status,omitempty"`
	Content int               `json:"content,omitempty"` // selects the generated release body
	Labels  map[string]string `json:"labels,omitempty"`  // user labels (create/update) or query labels (query)
	Fault   *FaultSpec        `json:"fault,omitempty"`
}

var c10Statuses = []string{"deployed", "superseded", "failed", "pending-install", "pending-upgrade", "pending-rollback", "uninstalled", "uninstalling", "unknown"}

func c10Key(name string, rev int) string {
	return fmt.Sprintf("sh.helm.release.v1.%s.v%d", name, rev)
}

// c10Release builds a release from pure data.
func c10Release(op *StoreOp, ns string) *release.Release {
	c := op.Content
	t0 := time.Date(2001, 2, 3, 4, 5, 6, 123456789*(c%2), time.FixedZone("x", 3600*(c%5-2)))
	r := &release.Release{
		Name: op.Name, Namespace: ns, Version: op.Rev,
		Info: &release.Info{
			FirstDeployed: helmtime.Time{Time: t0},
			LastDeployed:  helmtime.Time{Time: t0.Add(time.Duration(c) * time.Hour)},
			Description:   fmt.Sprintf("desc %d ünï \"quoted\" \n newline%s", c, []string{"", " 安装完成 ✓", " — Ж", ""}[c%4]),
			Status:        release.Status(op.Status),
			Notes:         strings.Repeat("notes ", c%7),
		},
		Manifest: "---\n# Source: x/templates/a.yaml\napiVersion: v1\nkind: ConfigMap\nmetadata:\n  name: cm\ndata:\n  k: \"" + strings.Repeat("ü✓x", 1+c*c*400%20000) + "\"\n",
		Config: map[string]interface{}{
			"a": fmt.Sprint(c), "n": map[string]interface{}{"deep": map[string]interface{}{"list": []interface{}{float64(c), "two", nil, true}}},
			"empty": map[string]interface{}{}, "uni": "日本語", "num": float64(c) + 0.5,
		},
		Labels: map[string]string{},
	}
	if c%3 == 0 {
		r.Info.Deleted = helmtime.Time{Time: t0.Add(48 * time.Hour)}
	}
	if c == 12 {
		// more than 1 MiB of JSON that gzips to a few kilobytes (well inside the object size limit of a real cluster)
		r.Manifest += "# " + strings.Repeat("padding padding padding padding\n# ", 50000)
	}
	if c%4 == 1 {
		r.Config = nil
	}
	r.Chart = &chart.Chart{
		Metadata:  &chart.Metadata{Name: "demo", Version: fmt.Sprintf("1.%d.0", c), APIVersion: "v2", Description: "démo", Keywords: []string{"a", "b"}},
		Templates: []*chart.File{{Name: "templates/a.yaml", Data: []byte("kind: ConfigMap # " + fmt.Sprint(c))}, {Name: "templates/bin", Data: []byte{0, 1, 2, 255, byte(c)}}},
		Values:    map[string]interface{}{"v": float64(c), "s": "x"},
		Files:     []*chart.File{{Name: "README.md", Data: []byte("readme")}},
	}
	if c%2 == 0 {
		r.Chart.Schema = []byte(`{"type":"object"}`)
		r.Chart.Lock = &chart.Lock{Digest: "sha256:abc", Generated: t0}
	}
	if c%3 != 2 {
		r.Hooks = []*release.Hook{{Name: "h", Kind: "Job", Path: "x/templates/h.yaml", Manifest: "kind: Job", Weight: c - 3,
			Events: []release.HookEvent{release.HookPreInstall, release.HookPostUpgrade}, DeletePolicies: []release.HookDeletePolicy{release.HookSucceeded},
			LastRun: release.HookExecution{StartedAt: helmtime.Time{Time: t0}, CompletedAt: helmtime.Time{Time: t0.Add(time.Second)}, Phase: release.HookPhaseSucceeded}}}
	}
	for k, v := range op.Labels {
		r.Labels[k] = v
	}
	return r
}

var c10SystemLabels = map[string]bool{"name": true, "owner": true, "status": true, "version": true, "createdAt": true, "modifiedAt": true}

// c10Proj is the comparable projection of a release: its JSON form plus user labels.
func c10Proj(r *release.Release) string {
	if r == nil {
		return "<nil>"
	}
	b, err := json.Marshal(r)
	if err != nil {
		return "marshal error: " + err.Error()
	}
	var m interface{}
	_ = json.Unmarshal(b, &m)
	nb, _ := json.Marshal(m)
	var ls []string
	for k, v := range r.Labels {
		if !c10SystemLabels[k] {
			ls = append(ls, k+"="+v)
		}
	}
	sort.Strings(ls)
	// the instants themselves, not Helm's own rendering of them (which the JSON form above goes through)
	var ts []string
	if r.Info != nil {
		ts = append(ts, fmt.Sprint(r.Info.FirstDeployed.UnixNano(), r.Info.LastDeployed.UnixNano(), r.Info.Deleted.IsZero(), r.Info.Deleted.UnixNano()))
	}
	for _, h := range r.Hooks {
		if h != nil {
			ts = append(ts, fmt.Sprint(h.LastRun.StartedAt.UnixNano(), h.LastRun.CompletedAt.UnixNano()))
		}
	}
	// values are handed to templates as Go values: a number that comes back as another Go type (a string-backed
	// json.Number, say) compares and prints differently there although it serialises to the same JSON text. The generated
	// content only uses the types JSON decoding yields (float64, string, bool, nil, map, slice), so equality is exact.
	ty := c10Types(r.Config)
	if r.Chart != nil {
		ty += "/" + c10Types(r.Chart.Values)
	}
	return string(nb) + "|" + strings.Join(ls, ",") + "|t=" + strings.Join(ts, ";") + "|types=" + ty
}

// c10Types spells out the Go type of every leaf of a values tree, in key order.
func c10Types(v interface{}) string {
	switch t := v.(type) {
	case map[string]interface{}:
		if t == nil {
			return "nilmap"
		}
		var parts []string
		for _, k := range sortedKeys(t) {
			parts = append(parts, k+":"+c10Types(t[k]))
		}
		return "{" + strings.Join(parts, ",") + "}"
	case []interface{}:
		var parts []string
		for _, e := range t {
			parts = append(parts, c10Types(e))
		}
		return "[" + strings.Join(parts, ",") + "]"
	default:
		return fmt.Sprintf("%T", v)
	}
}

type c10Backend struct {
	name string
	d    driver.Driver
	proc *Proc
	sim  *Sim
}

func c10ErrClass(err error) string {
	switch {
	case err == nil:
		return "ok"
	case err == driver.ErrReleaseExists || strings.Contains(err.Error(), "already exists"):
		return "exists"
	case err == driver.ErrReleaseNotFound || strings.Contains(err.Error(), "not found"):
		return "not-found"
	}
	return "error"
}

// ExecuteC10 runs the call sequence on the three backends.
func ExecuteC10(t *testing.T, plan *Plan) *RunResult {
	res := &RunResult{Check: plan.Check, Seed: plan.Seed, Index: plan.Index, Variant: plan.Variant, FaultsFired: map[string]int{}, Probes: map[string]int{}}
	t0 := time.Now()
	defer func() { res.WallMs = float64(time.Since(t0).Microseconds()) / 1000 }()
	defer func() {
		if r := recover(); r != nil {
			res.Infra = fmt.Sprintf("panic in C10 harness: %v", r)
		}
	}()
	synctest.Test(t, func(t *testing.T) {
		ns := plan.Namespace
		var bes []*c10Backend
		for _, kind := range []string{"memory", "secrets", "configmaps"} {
			s := NewSim(nil, "")
			pr := s.NewProc("store")
			pr.Direct = true
			nsRes, _ := resByKind("Namespace")
			s.Server.Put(nsRes, map[string]interface{}{"metadata": map[string]interface{}{"name": ns}})
			cfg := &rest.Config{Host: "http://sim.cluster.local", Transport: pr, QPS: -1,
				ContentConfig: rest.ContentConfig{ContentType: "application/json", AcceptContentTypes: "application/json"}}
			var d driver.Driver
			switch kind {
			case "memory":
				m := driver.NewMemory()
				m.SetNamespace(ns)
				d = m
			case "secrets":
				cs, err := kubernetes.NewForConfig(cfg)
				if err != nil {
					panic(err)
				}
				d = driver.NewSecrets(cs.CoreV1().Secrets(ns))
			case "configmaps":
				cs, err := kubernetes.NewForConfig(cfg)
				if err != nil {
					panic(err)
				}
				d = driver.NewConfigMaps(cs.CoreV1().ConfigMaps(ns))
			}
			bes = append(bes, &c10Backend{kind, d, pr, s})
		}
		type key struct {
			name string
			rev  int
		}
		rmwStatus := map[key]string{}   // status set by read-modify-write since the last create/update
		effective := map[key]*StoreOp{} // the create/update that produced the content currently stored
		model := map[key]string{}       // key -> projection
		modelLabels := map[key]labelT{} // key -> system label view used by queries
		violate := func(clause, op, cause, detail string, step int) {
			res.Violations = append(res.Violations, Violation{"C10", clause, op, cause, detail, step})
		}
		var outcome []string
	steps:
		for si, st := range plan.Steps {
			op := st.Store
			if op == nil {
				continue
			}
			k := key{op.Name, op.Rev}
			_, present := model[k]
			nameClass := nameClassOf(op.Name)
			type result struct {
				class string
				projs []string
			}
			var results []result
			for _, be := range bes {
				faulted := op.Fault != nil && be.name != "memory"
				if faulted {
					f := *op.Fault
					be.proc.DirectFault = &f
					be.proc.directN = 0
				}
				var r result
				switch op.Op {
				case "create":
					err := be.d.Create(c10Key(op.Name, op.Rev), c10Release(op, ns))
					r.class = c10ErrClass(err)
					// "creating an existing key fails with already-exists": callers tell it apart with errors.Is, so the
					// drivers must agree on the error's identity, not only on its wording
					if r.class == "exists" && !errors.Is(err, driver.ErrReleaseExists) {
						r.class = "exists-but-not-ErrReleaseExists"
					}
				case "update":
					err := be.d.Update(c10Key(op.Name, op.Rev), c10Release(op, ns))
					r.class = c10ErrClass(err)
				case "get":
					rel, err := be.d.Get(c10Key(op.Name, op.Rev))
					r.class = c10ErrClass(err)
					if err == nil {
						r.projs = []string{c10Proj(rel)}
					}
				case "delete":
					rel, err := be.d.Delete(c10Key(op.Name, op.Rev))
					r.class = c10ErrClass(err)
					if err == nil {
						r.projs = []string{c10Proj(rel)}
					}
				case "list":
					rels, err := be.d.List(func(rl *release.Release) bool { return op.Status == "" || rl.Info.Status.String() == op.Status })
					r.class = c10ErrClass(err)
					for _, rl := range rels {
						r.projs = append(r.projs, c10Proj(rl))
					}
					sort.Strings(r.projs)
				case "query":
					rels, err := be.d.Query(op.Labels)
					r.class = c10ErrClass(err)
					for _, rl := range rels {
						r.projs = append(r.projs, c10Proj(rl))
					}
					sort.Strings(r.projs)
				case "rmw":
					// what the actions do: read the revision through a query, change its status, write the SAME object back
					rels, err := be.d.Query(map[string]string{"name": op.Name, "owner": "helm"})
					r.class = "not-found"
					if err == nil {
						for _, rl := range rels {
							if rl.Version == op.Rev {
								if be.name == "memory" {
									cp := *rl // the memory driver hands out its own pointers: work on a copy like a careful caller
									info := *rl.Info
									cp.Info = &info
									rl = &cp
								}
								rl.Info.Status = release.Status(op.Status)
								r.class = c10ErrClass(be.d.Update(c10Key(op.Name, op.Rev), rl))
							}
						}
					}
				}
				fired := be.proc.DirectFault != nil && be.proc.DirectFault.fired
				be.proc.DirectFault = nil
				if faulted && fired {
					res.FaultsFired[op.Fault.Kind]++
					// a faulted call may fail, and a lost response may or may not have applied the write;
					// it must never corrupt: re-read the key directly and require old or new content
					if r.class == "ok" && (op.Op == "create" || op.Op == "update" || op.Op == "delete") && op.Fault.Kind != FLostResponse {
						violate("fault-not-reported", op.Op, op.Fault.Kind+"@"+be.name, fmt.Sprintf("%s %s/%d succeeded although the API call was %s", op.Op, op.Name, op.Rev, op.Fault.Kind), si)
						break steps
					}
					if op.Op == "create" || op.Op == "update" || op.Op == "delete" {
						rel, err := be.d.Get(c10Key(op.Name, op.Rev))
						got := "<absent>"
						if err == nil {
							got = c10Proj(rel)
						}
						old := "<absent>"
						if present {
							old = model[k]
						}
						neu := "<absent>"
						if op.Op != "delete" {
							neu = c10Proj(c10Release(op, ns))
						}
						if got != old && !(op.Fault.Kind == FLostResponse && got == neu) {
							violate("fault-corrupts", op.Op, op.Fault.Kind+"@"+be.name, fmt.Sprintf("after a faulted %s of %s/%d the stored release is neither the old nor the new one", op.Op, op.Name, op.Rev), si)
							break steps
						}
						// bring this backend to the state the reference map will have after this step:
						// if the write was not applied, repeat the call without the fault
						wantAfter := old
						switch op.Op {
						case "create":
							if !present {
								wantAfter = neu
							}
						case "update":
							if present {
								wantAfter = neu
							}
						case "delete":
							wantAfter = "<absent>"
						}
						if got != wantAfter {
							switch op.Op {
							case "create":
								_ = be.d.Create(c10Key(op.Name, op.Rev), c10Release(op, ns))
							case "update":
								_ = be.d.Update(c10Key(op.Name, op.Rev), c10Release(op, ns))
							case "delete":
								_, _ = be.d.Delete(c10Key(op.Name, op.Rev))
							}
						}
					}
					r.class = "faulted"
				}
				results = append(results, r)
			}
			res.Checks += 3
			// expected by the reference map
			want := result{}
			switch op.Op {
			case "create":
				if present {
					want.class = "exists"
				} else {
					want.class = "ok"
				}
			case "update", "rmw":
				if present {
					want.class = "ok"
				} else {
					want.class = "not-found"
				}
			case "get", "delete":
				if present {
					want.class = "ok"
					want.projs = []string{model[k]}
				} else {
					want.class = "not-found"
				}
			case "list":
				want.class = "ok"
				for kk, pj := range model {
					if op.Status == "" || modelLabels[kk]["status"] == op.Status {
						want.projs = append(want.projs, pj)
					}
				}
				sort.Strings(want.projs)
			case "query":
				for kk, pj := range model {
					ok := true
					for lk, lv := range op.Labels {
						if modelLabels[kk][lk] != lv {
							ok = false
						}
					}
					if ok {
						want.projs = append(want.projs, pj)
					}
				}
				sort.Strings(want.projs)
				want.class = "ok"
				if len(want.projs) == 0 {
					want.class = "not-found"
				}
			}
			for bi, r := range results {
				if r.class == "faulted" {
					continue
				}
				be := bes[bi]
				if r.class != want.class {
					// update/delete of a missing key must fail; the error text differs per backend
					if want.class == "not-found" && r.class == "error" && (op.Op == "update" || op.Op == "rmw") {
						continue
					}
					violate("result-class", op.Op, be.name+":"+nameClass, fmt.Sprintf("%s %s/%d on %s answered %q, the reference map says %q", op.Op, op.Name, op.Rev, be.name, r.class, want.class), si)
					break steps
				}
				if want.class == "ok" && op.Op != "create" && op.Op != "update" && op.Op != "rmw" {
					if len(r.projs) != len(want.projs) {
						violate("result-set", op.Op, be.name+":"+nameClass, fmt.Sprintf("%s on %s returned %d release(s), expected %d", op.Op, be.name, len(r.projs), len(want.projs)), si)
						break steps
					}
					for i := range r.projs {
						if r.projs[i] != want.projs[i] {
							violate("read-back-equals-stored", op.Op, be.name+":"+nameClass+":"+diffField(r.projs[i], want.projs[i]), fmt.Sprintf("%s %s/%d on %s: returned release differs from the stored one in %s", op.Op, op.Name, op.Rev, be.name, diffField(r.projs[i], want.projs[i])), si)
							break steps
						}
					}
				}
			}
			// apply to the model
			switch op.Op {
			case "create":
				delete(rmwStatus, k)
				if !present {
					effective[k] = op
					model[k] = c10Proj(c10Release(op, ns))
					modelLabels[k] = labelT{"name": op.Name, "owner": "helm", "status": op.Status, "version": fmt.Sprint(op.Rev)}
					for lk, lv := range op.Labels {
						modelLabels[k][lk] = lv
					}
				}
			case "update":
				if present {
					delete(rmwStatus, k)
					effective[k] = op
					model[k] = c10Proj(c10Release(op, ns))
					modelLabels[k] = labelT{"name": op.Name, "owner": "helm", "status": op.Status, "version": fmt.Sprint(op.Rev)}
					for lk, lv := range op.Labels {
						modelLabels[k][lk] = lv
					}
				}
			case "delete":
				if present {
					delete(model, k)
					delete(modelLabels, k)
				}
			case "rmw":
				if present {
					// same content, new status
					src := effective[k]
					if src != nil {
						cp := *src
						cp.Status = op.Status
						rel := c10Release(&cp, ns)
						model[k] = c10Proj(rel)
						modelLabels[k]["status"] = op.Status
						rmwStatus[k] = op.Status
					}
				}
			}
			outcome = append(outcome, fmt.Sprintf("%s(%s/%d)=%s", op.Op, op.Name, op.Rev, want.class))
		}
		res.Outcome = strings.Join(outcome, " ")
		res.Signature = bodyHash([]byte(res.Outcome))
		res.NonTrivial = len(plan.Steps) >= 2
		res.Events = len(plan.Steps) * 3
		h := bodyHash([]byte(fmt.Sprintf("%s|%v", res.Outcome, res.Violations)))
		res.EventHash = h
	})
	return res
}

type labelT map[string]string

// c10ReleaseFromModelOp finds the create/update StoreOp that produced the content currently stored for a key.
func c10ReleaseFromModelOp(plan *Plan, before int, name string, rev int) *StoreOp {
	for i := before - 1; i >= 0; i-- {
		op := plan.Steps[i].Store
		if op == nil || op.Name != name || op.Rev != rev {
			continue
		}
		if op.Op == "create" || op.Op == "update" {
			return op
		}
	}
	return nil
}

// c10ReleaseFromModel finds the StoreOp that produced the model's current value for a key.
func c10ReleaseFromModel(plan *Plan, before int, name string, rev int, ns string) *release.Release {
	for i := before - 1; i >= 0; i-- {
		op := plan.Steps[i].Store
		if op == nil || op.Name != name || op.Rev != rev {
			continue
		}
		if op.Op == "create" || op.Op == "update" {
			return c10Release(op, ns)
		}
	}
	return nil
}

func nameClassOf(n string) string {
	switch {
	case strings.Contains(n, ".v"):
		return "name-with-.v"
	case strings.Contains(n, "."):
		return "name-with-dot"
	case len(n) >= 50:
		return "long-name"
	}
	return "plain-name"
}

// diffField names the first top-level JSON field in which two projections differ.
func diffField(a, b string) string {
	pa, pb := strings.SplitN(a, "|", 2), strings.SplitN(b, "|", 2)
	var ma, mb map[string]interface{}
	if json.Unmarshal([]byte(pa[0]), &ma) != nil || json.Unmarshal([]byte(pb[0]), &mb) != nil {
		return "unparsable"
	}
	keys := map[string]bool{}
	for k := range ma {
		keys[k] = true
	}
	for k := range mb {
		keys[k] = true
	}
	for _, k := range sortedIDs(keys) {
		ja, _ := json.Marshal(ma[k])
		jb, _ := json.Marshal(mb[k])
		if string(ja) != string(jb) {
			return k
		}
	}
	if len(pa) > 1 && len(pb) > 1 && pa[1] != pb[1] {
		ta, tb := strings.LastIndex(pa[1], "|types="), strings.LastIndex(pb[1], "|types=")
		if ta >= 0 && tb >= 0 && pa[1][:ta] == pb[1][:tb] {
			return "value-types"
		}
		ia, ib := strings.LastIndex(pa[1], "|t="), strings.LastIndex(pb[1], "|t=")
		if ia >= 0 && ib >= 0 && pa[1][:ia] == pb[1][:ib] {
			return "instants"
		}
		return "labels"
	}
	return "none"
}

var c10Names = []string{"rel", "a.vb", "x.v1", "my-release", "1.2", "a.b.c", "v.v", "r-" + strings.Repeat("x", 51), "a.v1.v2", "0"}

func genC10(seed, index uint64, tier string) *Plan {
	g := NewGen(seed, index, 10)
	p := &Plan{Check: "C10", Seed: seed, Index: index, Namespace: "ns1", Backend: "all"}
	nn := 1 + g.N(3)
	var names []string
	for i := 0; i < nn; i++ {
		names = append(names, c10Names[g.N(len(c10Names))])
	}
	n := 1 + g.N(30)
	faulty := g.Chance(0.3)
	wide := g.Chance(0.25) // revision numbers whose decimal spellings are prefixes of each other
	p.Variant = "clean"
	if faulty {
		p.Variant = "faults"
	}
	for i := 0; i < n; i++ {
		op := &StoreOp{Name: names[g.N(len(names))], Rev: 1 + g.N(4)}
		if wide {
			op.Rev = []int{1, 2, 10, 11, 12, 100}[g.N(6)]
		}
		switch g.Weighted(6, 4, 4, 3, 2, 4, 3) {
		case 6:
			op.Op = "rmw"
			op.Status = c10Statuses[g.N(len(c10Statuses))]
		case 0:
			op.Op = "create"
		case 1:
			op.Op = "get"
		case 2:
			op.Op = "update"
		case 3:
			op.Op = "delete"
		case 4:
			op.Op = "list"
			if g.Chance(0.6) {
				op.Status = c10Statuses[g.N(len(c10Statuses))]
			}
		case 5:
			op.Op = "query"
			op.Labels = map[string]string{}
			if g.Chance(0.8) {
				op.Labels["name"] = op.Name
			}
			if g.Chance(0.6) {
				op.Labels["owner"] = "helm"
			}
			if g.Chance(0.4) {
				op.Labels["status"] = c10Statuses[g.N(len(c10Statuses))]
			}
			if g.Chance(0.3) {
				op.Labels["version"] = fmt.Sprint(1 + g.N(4))
				if wide {
					op.Labels["version"] = fmt.Sprint([]int{1, 2, 10, 11, 12, 100}[g.N(6)])
				}
			}
		}
		if op.Op == "create" || op.Op == "update" {
			op.Status = c10Statuses[g.N(len(c10Statuses))]
			op.Content = g.N(12)
			if g.Chance(0.04) {
				op.Content = 12
			}
			if g.Chance(0.3) {
				op.Labels = map[string]string{"team": g.Pick("red", "blue"), "verif.example/x": "y_1.2"}
				if g.Chance(0.4) {
					op.Labels["canary"] = "" // a marker label: the empty string is a valid label value and part of what was stored
				}
			}
		}
		if faulty && g.Chance(0.25) && op.Op != "list" && op.Op != "query" && op.Op != "rmw" {
			f := FaultSpec{K: 1 + g.N(2)}
			switch g.N(3) {
			case 0:
				f.Kind, f.Code = FReject, []int{403, 500, 503}[g.N(3)]
			case 1:
				f.Kind = FDrop
			case 2:
				f.Kind = FLostResponse
			}
			op.Fault = &f
		}
		p.Steps = append(p.Steps, Step{Store: op})
	}
	return p.Clone()
}
