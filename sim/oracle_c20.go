package sim

// C20 (storage slice) — a damaged stored release record produces an error,
// never a crash or a hang, and listing skips it while returning the others.

import (
	"fmt"
	"strings"
	"testing"
	"time"
)

func oracleC20(x *Exec, so *StepObs) {
	const P = "C20"
	fail := func(clause, op, cause, detail string) {
		x.Violate(Violation{P, clause, op, cause, detail, so.Index})
		x.stop = true
	}
	damage := x.c20Damage(so.Index)
	for _, r := range so.Results {
		x.Res.Checks++
		if r.Panic != "" {
			top := panicSite(r.Panic)
			fail("no-panic", r.Op.Op, damage+":"+top, fmt.Sprintf("%s panicked: %s", r.Op.Op, trunc(r.Panic, 1500)))
			return
		}
		if damage != "intact" {
			x.Sim.Probe("c20-op-on-damaged:" + r.Op.Op)
		}
	}
	if so.After == nil {
		return
	}
	if strings.HasPrefix(so.After.HistErr, "panic:") {
		fail("no-panic", "history", damage+":"+panicSite(so.After.HistErr), "Storage.History panicked: "+trunc(so.After.HistErr, 1200))
		return
	}
	if so.Step.Corrupt != nil {
		// the observer's History must return exactly the undamaged records (the damaged one may or may not still decode)
		x.Res.Checks++
		rev := so.Step.Corrupt.Rev
		if rev == 0 {
			rev = so.Before.MaxRev()
		}
		a := revSet(so.After)
		for _, lr := range so.Before.Ledger {
			if lr.Rev != rev && !a[lr.Rev] {
				fail("list-skips-only-damaged", "history", so.Step.Corrupt.Mode, fmt.Sprintf("revision %d is intact but History no longer returns it after revision %d was damaged (%s)", lr.Rev, rev, so.Step.Corrupt.Mode))
				return
			}
		}
		if so.After.HistErr != "" {
			fail("list-skips-only-damaged", "history", so.Step.Corrupt.Mode, "History failed: "+so.After.HistErr)
			return
		}
		if !a[rev] {
			x.Sim.Probe("c20-record-undecodable")
		}
	}
	// list/history operations run by Helm itself must also return the intact ones
	for _, r := range so.Results {
		if (r.Op.Op == "history" || r.Op.Op == "list") && r.OK {
			got := map[int]bool{}
			for _, rl := range r.Rels {
				if rl != nil && rl.Name == x.Plan.Release {
					got[rl.Version] = true
				}
			}
			for _, lr := range so.After.Ledger {
				if r.Op.Op == "history" && !got[lr.Rev] {
					fail("list-skips-only-damaged", r.Op.Op, damage, fmt.Sprintf("helm history did not return readable revision %d", lr.Rev))
					return
				}
			}
		}
	}
}

// c20Damage describes the damage done before the given step ("intact" if none yet).
func (x *Exec) c20Damage(step int) string {
	d := "intact"
	for i := 0; i < step && i < len(x.Plan.Steps); i++ {
		if c := x.Plan.Steps[i].Corrupt; c != nil {
			d = c.Mode
		}
	}
	return d
}

// panicSite extracts the first helm frame of a recovered panic's stack.
func panicSite(p string) string {
	lines := strings.Split(p, "\n")
	seenPanic := false
	for _, l := range lines {
		if strings.HasPrefix(l, "panic(") {
			seenPanic = true
			continue
		}
		if seenPanic && strings.HasPrefix(l, "helm.sh/helm/v4/") {
			f := strings.TrimPrefix(l, "helm.sh/helm/v4/")
			if i := strings.LastIndex(f, "("); i > 0 {
				f = f[:i]
			}
			return f
		}
	}
	return "unknown-site"
}

func genC20(seed, index uint64, tier string) *Plan {
	g := NewGen(seed, index, 20)
	p := &Plan{Check: "C20", Seed: seed, Index: index, Namespace: "ns1", Release: "rel", ClientTOs: 30}
	p.Backend = g.Pick("secrets", "configmaps")
	co := g.SwarmChartOpts()
	co.MaxRes = 1 + g.N(3)
	p.Charts = g.ChartFamily(co)
	ho := &HistoryOpts{NVersions: len(p.Charts), Flags: true, MaxHistory: g.Chance(0.3), WaitP: 0.2, AtomicP: 0.2, FirstInst: 1}
	npre := 1 + g.N(4)
	for i := 0; i < npre; i++ {
		op := g.Op(i, ho)
		if i > 0 && op.Op == "uninstall" && !op.KeepHistory {
			op.Op = "upgrade"
		}
		p.Steps = append(p.Steps, Step{Op: &op})
	}
	nc := 1 + g.N(2)
	for k := 0; k < nc; k++ {
		c := &CorruptSpec{Rev: g.N(npre + 1), Pos: g.N(100000)}
		c.Mode = g.Pick("bitflip", "bitflip", "truncate", "truncate", "zero", "garbage", "b64nogzip", "jsonnull", "jsonarray", "jsonnoinfo", "emptydata", "gz-header", "gz-header", "gz-truncate", "gz-bitflip", "gz-crc")
		p.Steps = append(p.Steps, Step{Corrupt: c})
		nops := 1 + g.N(4)
		for i := 0; i < nops; i++ {
			var op OpSpec
			switch g.Weighted(3, 3, 3, 2, 3, 2, 2, 1) {
			case 0:
				op = OpSpec{Op: "history"}
			case 1:
				op = OpSpec{Op: "list"}
			case 2:
				op = OpSpec{Op: "get", Revision: g.N(npre + 2)}
			case 3:
				op = OpSpec{Op: "status", Revision: g.N(npre + 2)}
			case 4:
				op = OpSpec{Op: "upgrade", Chart: g.N(len(p.Charts)), Atomic: g.Chance(0.3), MaxHistory: g.N(3), ReuseValues: g.Chance(0.3)}
			case 5:
				op = OpSpec{Op: "rollback", Revision: g.N(npre + 2)}
			case 6:
				op = OpSpec{Op: "uninstall", KeepHistory: g.Chance(0.4)}
			case 7:
				op = OpSpec{Op: "getvalues", Revision: g.N(npre + 2)}
			}
			p.Steps = append(p.Steps, Step{Op: &op})
		}
	}
	p.Variant = "corrupt-record"
	p.Policy = "uniform"
	p.Schedule = g.Schedule(32)
	return p.Clone()
}

// ---- C20 (render slice): self-referential templates must end in an error, not in a crash ----
//
// Strictly this is input-shaped rather than fault-shaped (DESIGN §7); it is kept because it is
// cheap on the render harness and because the failure mode (a fatal stack overflow that no
// recover() can catch) only shows at process level, which the driver's worker-crash handling sees.

func genC20c(g *Gen, seed, index uint64) *Plan {
	p := &Plan{Check: "C20", Seed: seed, Index: index, Backend: "none", Variant: "recursive-templates", Namespace: "ns1", Release: "rel"}
	cs := ChartSpec{Name: "demo", Version: "1.0.0", Values: map[string]interface{}{"a": "x"}}
	raw := map[string]string{}
	vals := map[string]interface{}{}
	shape := g.Pick("include-self", "include-mutual", "tpl-cycle", "tpl-cycle-partial", "tpl-nested-finite", "include-chain-finite", "template-self", "tpl-self", "tpl-mutual")
	switch shape {
	case "include-self":
		raw["templates/_h.tpl"] = `{{- define "loop" -}}x{{ include "loop" . }}{{- end -}}`
		raw["templates/a.yaml"] = "apiVersion: v1\nkind: ConfigMap\nmetadata:\n  name: a\ndata:\n  k: {{ include \"loop\" . | quote }}\n"
	case "include-mutual":
		raw["templates/_h.tpl"] = `{{- define "ping" -}}{{ include "pong" . }}{{- end -}}{{- define "pong" -}}{{ include "ping" . }}{{- end -}}`
		raw["templates/a.yaml"] = "apiVersion: v1\nkind: ConfigMap\nmetadata:\n  name: a\ndata:\n  k: {{ include \"ping\" . | quote }}\n"
	case "tpl-cycle":
		vals["snippet"] = `{{ include "loop" . }}`
		raw["templates/_h.tpl"] = `{{- define "loop" -}}{{ tpl .Values.snippet . }}{{- end -}}`
		raw["templates/a.yaml"] = "apiVersion: v1\nkind: ConfigMap\nmetadata:\n  name: a\ndata:\n  k: {{ include \"loop\" . | quote }}\n"
	case "tpl-cycle-partial":
		vals["snippet"] = `{{ tpl .Values.other . }}`
		vals["other"] = `{{ include "viaTpl" . }}`
		raw["templates/_h.tpl"] = `{{- define "viaTpl" -}}{{ tpl .Values.snippet . }}{{- end -}}`
		raw["templates/a.yaml"] = "apiVersion: v1\nkind: ConfigMap\nmetadata:\n  name: a\ndata:\n  k: {{ tpl .Values.snippet . | quote }}\n"
	case "tpl-self":
		// the value handed to tpl calls tpl on itself: no include, so include's nesting counter never sees it
		vals["snippet"] = `{{ tpl .Values.snippet . }}`
		raw["templates/a.yaml"] = "apiVersion: v1\nkind: ConfigMap\nmetadata:\n  name: a\ndata:\n  k: {{ tpl .Values.snippet . | quote }}\n"
	case "tpl-mutual":
		vals["ping"] = `x{{ tpl .Values.pong . }}`
		vals["pong"] = `y{{ tpl .Values.ping . }}`
		raw["templates/a.yaml"] = "apiVersion: v1\nkind: ConfigMap\nmetadata:\n  name: a\ndata:\n  k: {{ tpl .Values.ping . | quote }}\n"
	case "tpl-nested-finite":
		vals["l1"] = `{{ tpl .Values.l2 . }}`
		vals["l2"] = `{{ tpl .Values.l3 . }}`
		vals["l3"] = `leaf-{{ .Release.Name }}`
		raw["templates/a.yaml"] = "apiVersion: v1\nkind: ConfigMap\nmetadata:\n  name: a\ndata:\n  k: {{ tpl .Values.l1 . | quote }}\n"
	case "include-chain-finite":
		var b strings.Builder
		n := 20 + g.N(60)
		for i := 0; i < n; i++ {
			fmt.Fprintf(&b, "{{- define \"c%d\" -}}{{ include \"c%d\" . }}{{- end -}}\n", i, i+1)
		}
		fmt.Fprintf(&b, "{{- define \"c%d\" -}}end{{- end -}}\n", n)
		raw["templates/_h.tpl"] = b.String()
		raw["templates/a.yaml"] = "apiVersion: v1\nkind: ConfigMap\nmetadata:\n  name: a\ndata:\n  k: {{ include \"c0\" . | quote }}\n"
	case "template-self":
		raw["templates/_h.tpl"] = `{{- define "self" -}}{{ template "self" . }}{{- end -}}`
		raw["templates/a.yaml"] = "apiVersion: v1\nkind: ConfigMap\nmetadata:\n  name: a\ndata:\n  k: {{ include \"self\" . | quote }}\n"
	}
	cs.RawFiles = raw
	p.Charts = []ChartSpec{cs}
	p.Steps = []Step{{Op: &OpSpec{Op: "install", Chart: 0, Values: vals, DryRun: true, ClientOnly: true, Description: shape}}}
	p.Render = &RenderSpec{K: 0}
	return p.Clone()
}

// ExecuteC20c renders one self-referential chart; the only verdicts are "panicked" and "took too long".
func ExecuteC20c(t *testing.T, plan *Plan) *RunResult {
	res := &RunResult{Check: plan.Check, Seed: plan.Seed, Index: plan.Index, Variant: plan.Variant, FaultsFired: map[string]int{}, Probes: map[string]int{}}
	t0 := time.Now()
	shape := plan.Steps[0].Op.Description
	out := renderOnce(&plan.Charts[0], plan.Steps[0].Op.Values, plan.Render, nil)
	wall := time.Since(t0)
	res.WallMs = float64(wall.Microseconds()) / 1000
	res.Checks = 2
	if strings.HasPrefix(out.Err, "panic:") {
		res.Violations = append(res.Violations, Violation{"C20", "no-panic", "render", shape, "rendering panicked: " + trunc(out.Err, 400), 0})
	}
	if wall > 60*time.Second {
		res.Violations = append(res.Violations, Violation{"C20", "no-hang", "render", shape, fmt.Sprintf("rendering took %v", wall), 0})
	}
	finite := shape == "tpl-nested-finite" || shape == "include-chain-finite"
	if finite && out.Err != "" {
		res.Violations = append(res.Violations, Violation{"C20", "finite-nesting-renders", "render", shape, "a finite nesting was rejected: " + trunc(out.Err, 300), 0})
	}
	if !finite && out.Err == "" {
		res.Violations = append(res.Violations, Violation{"C20", "cycle-reported", "render", shape, "an infinitely self-referential template rendered without error", 0})
	}
	res.Probes["recursive-template:"+shape]++
	res.Outcome = fmt.Sprintf("c20c %s err=%q", shape, trunc(out.Err, 80))
	res.Signature = bodyHash([]byte(res.Outcome))
	res.NonTrivial = true
	res.Events = 1
	res.EventHash = bodyHash([]byte(fmt.Sprintf("%s|%v", shape, out.Err != "")))
	return res
}
