package sim

// Plan generation. Everything random is drawn here, from one PCG stream
// seeded with (VERIF_SEED, run index), before any Helm code runs.

import (
	"fmt"
	"math/rand/v2"
)

type Gen struct {
	r      *rand.Rand
	marker int
}

func NewGen(seed, index uint64, salt uint64) *Gen {
	return &Gen{r: rand.New(rand.NewPCG(seed, index*0x9E3779B97F4A7C15+salt))}
}

func (g *Gen) N(n int) int { return g.r.IntN(n) }
func (g *Gen) Chance(p float64) bool {
	return g.r.Float64() < p
}
func (g *Gen) Pick(xs ...string) string { return xs[g.N(len(xs))] }
func (g *Gen) Weighted(ws ...int) int {
	t := 0
	for _, w := range ws {
		t += w
	}
	x := g.N(t)
	for i, w := range ws {
		if x < w {
			return i
		}
		x -= w
	}
	return len(ws) - 1
}
func (g *Gen) Marker() string { g.marker++; return fmt.Sprintf("m%d", g.marker) }
func (g *Gen) Word() string {
	return g.Pick("alpha", "beta", "gamma", "delta", "omega", "x1", "y2", "z3", "ünï", "a b", "10", "true", "")
}
func (g *Gen) Schedule(n int) []uint32 {
	s := make([]uint32, n)
	for i := range s {
		s[i] = g.r.Uint32() % 1024
	}
	return s
}

// ChartOpts is the swarm configuration for a chart family.
type ChartOpts struct {
	Kinds      []string
	MaxRes     int
	Hooks      bool
	HookKinds  []string
	Keep       bool
	Subcharts  bool
	Notes      bool
	Partials   bool
	CRDs       bool
	Versions   int
	Cond       bool
	ExplicitNS bool
	HookEvents []string
}

var allKinds = []string{"ConfigMap", "Secret", "ServiceAccount", "Service", "Deployment", "Job", "ClusterRole", "Widget"}
var allHookEvents = []string{"pre-install", "post-install", "pre-upgrade", "post-upgrade", "pre-rollback", "post-rollback", "pre-delete", "post-delete"}

func kindPrefix(k string) string {
	switch k {
	case "ConfigMap":
		return "cm"
	case "Secret":
		return "sec"
	case "ServiceAccount":
		return "sa"
	case "Service":
		return "svc"
	case "Deployment":
		return "dep"
	case "Job":
		return "job"
	case "Pod":
		return "pod"
	case "ClusterRole":
		return "verif-cr"
	case "Namespace":
		return "verif-ns"
	case "Widget":
		return "wid"
	case "Gadget":
		return "gad"
	}
	return "x"
}

func (g *Gen) SwarmChartOpts() ChartOpts {
	o := ChartOpts{MaxRes: 1 + g.N(6), Versions: 2 + g.N(3)}
	// kind palette: random non-empty subset, biased small
	for _, k := range allKinds {
		if g.Chance(0.45) {
			o.Kinds = append(o.Kinds, k)
		}
	}
	if len(o.Kinds) == 0 {
		o.Kinds = []string{"ConfigMap"}
	}
	o.Hooks = g.Chance(0.5)
	o.HookKinds = []string{"Job", "Pod", "ConfigMap"}
	o.HookEvents = allHookEvents
	o.Keep = g.Chance(0.3)
	o.Subcharts = g.Chance(0.25)
	o.Notes = g.Chance(0.4)
	o.Partials = g.Chance(0.3)
	o.Cond = g.Chance(0.2)
	return o
}

var valueKeys = []string{"a", "b", "n.c", "n.d"}

func defaultValues(g *Gen) map[string]interface{} {
	return map[string]interface{}{
		"a": g.Word(), "b": g.Word(),
		"n":      map[string]interface{}{"c": g.Word(), "d": g.Word()},
		"on":     true,
		"subon":  true,
		"global": map[string]interface{}{"g": g.Word()},
	}
}

func (g *Gen) dataFor(kind string) map[string]string {
	d := map[string]string{}
	n := 1 + g.N(3)
	for i := 0; i < n; i++ {
		key := fmt.Sprintf("k%d", i)
		if kind == "Deployment" || kind == "Job" {
			key = fmt.Sprintf("E%d", i)
		}
		if g.Chance(0.5) {
			d[key] = "$" + valueKeys[g.N(len(valueKeys))]
		} else {
			d[key] = g.Word()
		}
	}
	if kind == "ServiceAccount" {
		return map[string]string{"automount": g.Pick("true", "false")}
	}
	if kind == "ClusterRole" {
		return map[string]string{"verbs": g.Pick("get", "list", "watch")}
	}
	return d
}

func (g *Gen) newSlot(kind string, idx int, o *ChartOpts) ResSlot {
	s := ResSlot{Kind: kind, Name: fmt.Sprintf("%s%d", kindPrefix(kind), idx), Marker: g.Marker()}
	s.File = g.Pick("a.yaml", "b.yaml", "c.yaml", "sub/d.yaml")
	switch kind {
	case "Service":
		s.Ports = []int{80}
		if g.Chance(0.5) {
			s.Ports = append(s.Ports, 443)
		}
	case "Deployment":
		s.Rep = 1 + g.N(3)
		s.Ports = []int{8080}
		s.Image = g.Pick("nginx:1", "nginx:2")
		s.Data = g.dataFor(kind)
	case "Job", "Pod":
		s.Image = g.Pick("busybox:1", "busybox:2")
		if kind == "Job" {
			s.Data = g.dataFor(kind)
		}
	default:
		s.Data = g.dataFor(kind)
	}
	if o.Keep && g.Chance(0.35) {
		s.Keep = "keep"
	}
	if o.Cond && g.Chance(0.3) {
		s.Cond = "on"
	}
	return s
}

func (g *Gen) newHook(idx int, o *ChartOpts) ResSlot {
	kind := o.HookKinds[g.N(len(o.HookKinds))]
	s := ResSlot{Kind: kind, Name: fmt.Sprintf("hk-%s%d", kindPrefix(kind), idx), Marker: g.Marker(), File: g.Pick("hooks.yaml", "a.yaml", "h2.yaml")}
	if kind == "ConfigMap" {
		s.Data = map[string]string{"h": g.Word()}
	}
	h := &HookSpec{}
	ne := 1 + g.N(2)
	seen := map[string]bool{}
	for i := 0; i < ne; i++ {
		e := o.HookEvents[g.N(len(o.HookEvents))]
		if !seen[e] {
			seen[e] = true
			h.Events = append(h.Events, e)
		}
	}
	if g.Chance(0.7) {
		w := g.N(7) - 3
		h.Weight = &w
	}
	switch g.N(6) {
	case 0: // annotation absent -> default before-hook-creation
	case 1:
		h.Policies = []string{"hook-succeeded"}
	case 2:
		h.Policies = []string{"hook-failed"}
	case 3:
		h.Policies = []string{"before-hook-creation"}
	case 4:
		h.Policies = []string{"hook-succeeded", "hook-failed"}
	case 5:
		h.Policies = []string{"before-hook-creation", "hook-succeeded", "hook-failed"}
	}
	if len(h.Policies) > 1 {
		// the annotation is a comma-separated list; blanks around the commas are allowed
		h.PolicySep = g.Pick(",", ",", ",", ", ", ", ", " , ")
	}
	s.Hook = h
	return s
}

// ChartFamily generates Versions versions of one chart whose resource sets
// grow, shrink and change content.
func (g *Gen) ChartFamily(o ChartOpts) []ChartSpec {
	var out []ChartSpec
	cs := ChartSpec{Name: "demo", Version: "1.0.0", Values: defaultValues(g), Partials: o.Partials}
	n := 1 + g.N(o.MaxRes)
	counters := map[string]int{}
	for i := 0; i < n; i++ {
		k := o.Kinds[g.N(len(o.Kinds))]
		counters[k]++
		cs.Slots = append(cs.Slots, g.newSlot(k, counters[k], &o))
	}
	hookN := 0
	if o.Hooks {
		for i := 0; i < 1+g.N(3); i++ {
			hookN++
			cs.Slots = append(cs.Slots, g.newHook(hookN, &o))
		}
	}
	if o.Notes {
		cs.Notes = "Installed {{ .Release.Name }} with a={{ .Values.a }}\n"
	}
	if o.Subcharts {
		sc := SubchartSpec{Name: "subone", Values: map[string]interface{}{"s": g.Word()}}
		sc.Slots = []ResSlot{{Kind: "ConfigMap", Name: "sub-cm1", File: "s.yaml", Marker: g.Marker(), Data: map[string]string{"s": "$s"}}}
		if g.Chance(0.5) {
			sc.Condition = "subon"
		}
		if o.Notes && g.Chance(0.5) {
			sc.Notes = "sub notes\n"
		}
		cs.Subcharts = append(cs.Subcharts, sc)
	}
	if o.CRDs {
		cs.CRDs = []string{"Gadget"}
	}
	out = append(out, cs)
	for v := 1; v < o.Versions; v++ {
		next := *out[v-1].cloneSpec()
		next.Version = fmt.Sprintf("1.%d.0", v)
		nm := 1 + g.N(3)
		for m := 0; m < nm; m++ {
			switch g.Weighted(3, 2, 4, 1, 1, 1) {
			case 0: // add a resource
				k := o.Kinds[g.N(len(o.Kinds))]
				counters[k]++
				next.Slots = append(next.Slots, g.newSlot(k, counters[k], &o))
			case 1: // remove a resource
				if len(next.Slots) > 1 {
					i := g.N(len(next.Slots))
					next.Slots = append(next.Slots[:i:i], next.Slots[i+1:]...)
				}
			case 2: // change content
				i := g.N(len(next.Slots))
				s := &next.Slots[i]
				switch s.Kind {
				case "Service":
					if len(s.Ports) > 1 && g.Chance(0.5) {
						s.Ports = s.Ports[:1]
					} else {
						s.Ports = append(append([]int{}, s.Ports...), 8000+g.N(3))
						s.Ports = dedupInts(s.Ports)
					}
				case "Deployment":
					s.Rep = 1 + g.N(4)
					s.Image = g.Pick("nginx:1", "nginx:2", "nginx:3")
					if g.Chance(0.5) {
						s.Data = g.dataFor(s.Kind)
					}
				case "Pod":
					// pods are immutable in a real cluster; keep them unchanged
				default:
					if s.Hook == nil || s.Kind == "ConfigMap" {
						s.Data = g.dataFor(s.Kind)
					}
				}
			case 3: // toggle keep
				if o.Keep {
					i := g.N(len(next.Slots))
					if next.Slots[i].Hook == nil {
						if next.Slots[i].Keep == "" {
							next.Slots[i].Keep = "keep"
						} else {
							next.Slots[i].Keep = ""
						}
					}
				}
			case 4: // change a default value
				vals := deepCopyMap(next.Values)
				vals["a"] = g.Word()
				next.Values = vals
			case 5: // add a hook
				if o.Hooks {
					hookN++
					next.Slots = append(next.Slots, g.newHook(hookN, &o))
				}
			}
		}
		out = append(out, next)
	}
	return out
}

func dedupInts(xs []int) []int {
	seen := map[int]bool{}
	var out []int
	for _, x := range xs {
		if !seen[x] {
			seen[x] = true
			out = append(out, x)
		}
	}
	return out
}

func (c *ChartSpec) cloneSpec() *ChartSpec {
	p := Plan{Charts: []ChartSpec{*c}}
	return &p.Clone().Charts[0]
}

// UserValues draws a small override tree for the default value keys.
func (g *Gen) UserValues() map[string]interface{} {
	v := map[string]interface{}{}
	if g.Chance(0.5) {
		v["a"] = g.Word()
	}
	if g.Chance(0.3) {
		v["b"] = g.Word()
	}
	if g.Chance(0.3) {
		v["n"] = map[string]interface{}{"c": g.Word()}
	}
	if g.Chance(0.15) {
		v["on"] = false
	}
	if g.Chance(0.1) {
		v["subon"] = false
	}
	if len(v) == 0 {
		return nil
	}
	return v
}

// HistoryOpts steers operation generation.
type HistoryOpts struct {
	Steps       int
	NVersions   int
	Flags       bool // draw optional flags
	MaxHistory  bool
	AllowReads  bool
	WaitP       float64
	AtomicP     float64
	FirstInst   float64
	NoDryRun    bool
	NoTakeOwner bool
}

func (g *Gen) Op(i int, ho *HistoryOpts) OpSpec {
	var op OpSpec
	if i == 0 && g.Chance(ho.FirstInst) {
		op.Op = "install"
	} else {
		reads := 0
		if ho.AllowReads {
			reads = 1
		}
		switch g.Weighted(2, 9, 4, 3, reads) {
		case 0:
			op.Op = "install"
		case 1:
			op.Op = "upgrade"
		case 2:
			op.Op = "rollback"
		case 3:
			op.Op = "uninstall"
		case 4:
			op.Op = g.Pick("history", "get", "status", "list", "getvalues")
		}
	}
	op.Chart = g.N(ho.NVersions)
	op.Wait = g.Chance(ho.WaitP)
	op.TimeoutS = 60 * (1 + g.N(5))
	switch op.Op {
	case "install":
		op.Values = g.UserValues()
		if ho.Flags {
			op.Atomic = g.Chance(ho.AtomicP)
			op.Replace = i > 0 && g.Chance(0.6)
			op.NoHooks = g.Chance(0.15)
			op.TakeOwnership = !ho.NoTakeOwner && g.Chance(0.1)
			op.WaitForJobs = g.Chance(0.1)
			op.Force = g.Chance(0.05)
			if g.Chance(0.1) {
				op.Labels = map[string]string{"team": g.Pick("red", "blue")}
			}
		}
	case "upgrade":
		op.Values = g.UserValues()
		if ho.Flags {
			op.Atomic = g.Chance(ho.AtomicP)
			op.CleanupOnFail = g.Chance(0.25)
			op.NoHooks = g.Chance(0.15)
			op.TakeOwnership = !ho.NoTakeOwner && g.Chance(0.1)
			op.Force = g.Chance(0.05)
			switch g.N(8) {
			case 0:
				op.ResetValues = true
			case 1:
				op.ReuseValues = true
			case 2:
				op.ResetThenReuse = true
			}
			if g.Chance(0.1) {
				op.Labels = map[string]string{"team": g.Pick("red", "blue", "null")}
			}
		}
		if ho.MaxHistory && g.Chance(0.6) {
			op.MaxHistory = []int{1, 2, 3, 5}[g.N(4)]
		}
	case "rollback":
		op.Revision = g.N(4) // 0 = previous
		if ho.Flags {
			op.CleanupOnFail = g.Chance(0.2)
			op.NoHooks = g.Chance(0.15)
			op.Force = g.Chance(0.05)
		}
		if ho.MaxHistory && g.Chance(0.4) {
			op.MaxHistory = []int{1, 2, 3, 5}[g.N(4)]
		}
	case "uninstall":
		if ho.Flags {
			op.KeepHistory = g.Chance(0.35)
			op.NoHooks = g.Chance(0.15)
		}
	case "get", "status", "getvalues":
		op.Revision = g.N(3)
	}
	return op
}

func (g *Gen) Backend() string { return g.Pick("secrets", "configmaps", "memory") }

func boolp(b bool) *bool { return &b }
