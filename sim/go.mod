module verif/sim

go 1.26

require (
	github.com/evanphx/json-patch v5.9.11+incompatible
	github.com/spf13/cobra v1.9.1
	golang.org/x/crypto v0.37.0
	helm.sh/helm/v4 v4.0.0-00010101000000-000000000000
	k8s.io/apimachinery v0.32.3
	k8s.io/cli-runtime v0.32.3
	k8s.io/client-go v0.32.3
	k8s.io/kubectl v0.32.3
	sigs.k8s.io/yaml v1.4.0
)

require (
	dario.cat/mergo v1.0.1 // indirect
	github.com/BurntSushi/toml v1.5.0 // indirect
	github.com/MakeNowJust/heredoc v1.0.0 // indirect
	github.com/Masterminds/goutils v1.1.1 // indirect
	github.com/Masterminds/semver/v3 v3.3.0 // indirect
	github.com/Masterminds/sprig/v3 v3.3.0 // indirect
	github.com/Masterminds/squirrel v1.5.4 // indirect
	github.com/Masterminds/vcs v1.13.3 // indirect
	github.com/asaskevich/govalidator v0.0.0-20230301143203-a9d515a09cc2 // indirect
	github.com/blang/semver/v4 v4.0.0 // indirect
	github.com/chai2010/gettext-go v1.0.2 // indirect
	github.com/cpuguy83/go-md2man/v2 v2.0.6 // indirect
	github.com/cyphar/filepath-securejoin v0.4.1 // indirect
	github.com/davecgh/go-spew v1.1.2-0.20180830191138-d8f796af33cc // indirect
	github.com/emicklei/go-restful/v3 v3.12.1 // indirect
	github.com/evanphx/json-patch/v5 v5.9.11 // indirect
	github.com/exponent-io/jsonpath v0.0.0-20210407135951-1de76d718b3f // indirect
	github.com/fatih/color v1.13.0 // indirect
	github.com/fluxcd/cli-utils v0.36.0-flux.12 // indirect
	github.com/fxamacker/cbor/v2 v2.7.0 // indirect
	github.com/go-errors/errors v1.5.1 // indirect
	github.com/go-gorp/gorp/v3 v3.1.0 // indirect
	github.com/go-logr/logr v1.4.2 // indirect
	github.com/go-openapi/jsonpointer v0.21.0 // indirect
	github.com/go-openapi/jsonreference v0.21.0 // indirect
	github.com/go-openapi/swag v0.23.0 // indirect
	github.com/gobwas/glob v0.2.3 // indirect
	github.com/gofrs/flock v0.12.1 // indirect
	github.com/gogo/protobuf v1.3.2 // indirect
	github.com/golang/protobuf v1.5.4 // indirect
	github.com/google/btree v1.1.3 // indirect
	github.com/google/gnostic-models v0.6.9 // indirect
	github.com/google/go-cmp v0.6.0 // indirect
	github.com/google/gofuzz v1.2.0 // indirect
	github.com/google/shlex v0.0.0-20191202100458-e7afc7fbc510 // indirect
	github.com/google/uuid v1.6.0 // indirect
	github.com/gorilla/websocket v1.5.3 // indirect
	github.com/gosuri/uitable v0.0.4 // indirect
	github.com/gregjones/httpcache v0.0.0-20190611155906-901d90724c79 // indirect
	github.com/hashicorp/errwrap v1.1.0 // indirect
	github.com/hashicorp/go-multierror v1.1.1 // indirect
	github.com/huandu/xstrings v1.5.0 // indirect
	github.com/jmoiron/sqlx v1.4.0 // indirect
	github.com/josharian/intern v1.0.0 // indirect
	github.com/json-iterator/go v1.1.12 // indirect
	github.com/lann/builder v0.0.0-20180802200727-47ae307949d0 // indirect
	github.com/lann/ps v0.0.0-20150810152359-62de8c46ede0 // indirect
	github.com/lib/pq v1.10.9 // indirect
	github.com/liggitt/tabwriter v0.0.0-20181228230101-89fcab3d43de // indirect
	github.com/mailru/easyjson v0.9.0 // indirect
	github.com/mattn/go-colorable v0.1.13 // indirect
	github.com/mattn/go-isatty v0.0.17 // indirect
	github.com/mattn/go-runewidth v0.0.9 // indirect
	github.com/mitchellh/copystructure v1.2.0 // indirect
	github.com/mitchellh/go-wordwrap v1.0.1 // indirect
	github.com/mitchellh/reflectwalk v1.0.2 // indirect
	github.com/moby/spdystream v0.5.0 // indirect
	github.com/moby/term v0.5.2 // indirect
	github.com/modern-go/concurrent v0.0.0-20180306012644-bacd9c7ef1dd // indirect
	github.com/modern-go/reflect2 v1.0.2 // indirect
	github.com/monochromegane/go-gitignore v0.0.0-20200626010858-205db1a8cc00 // indirect
	github.com/munnerz/goautoneg v0.0.0-20191010083416-a7dc8b61c822 // indirect
	github.com/mxk/go-flowrate v0.0.0-20140419014527-cca7078d478f // indirect
	github.com/opencontainers/go-digest v1.0.0 // indirect
	github.com/opencontainers/image-spec v1.1.1 // indirect
	github.com/peterbourgon/diskv v2.0.1+incompatible // indirect
	github.com/pkg/errors v0.9.1 // indirect
	github.com/rubenv/sql-migrate v1.8.0 // indirect
	github.com/russross/blackfriday/v2 v2.1.0 // indirect
	github.com/santhosh-tekuri/jsonschema/v6 v6.0.1 // indirect
	github.com/shopspring/decimal v1.4.0 // indirect
	github.com/spf13/cast v1.7.0 // indirect
	github.com/spf13/pflag v1.0.6 // indirect
	github.com/x448/float16 v0.8.4 // indirect
	github.com/xlab/treeprint v1.2.0 // indirect
	golang.org/x/net v0.38.0 // indirect
	golang.org/x/oauth2 v0.28.0 // indirect
	golang.org/x/sync v0.13.0 // indirect
	golang.org/x/sys v0.32.0 // indirect
	golang.org/x/term v0.31.0 // indirect
	golang.org/x/text v0.24.0 // indirect
	golang.org/x/time v0.9.0 // indirect
	google.golang.org/protobuf v1.36.4 // indirect
	gopkg.in/evanphx/json-patch.v4 v4.12.0 // indirect
	gopkg.in/inf.v0 v0.9.1 // indirect
	gopkg.in/yaml.v3 v3.0.1 // indirect
	k8s.io/api v0.32.3 // indirect
	k8s.io/apiextensions-apiserver v0.32.3 // indirect
	k8s.io/apiserver v0.32.3 // indirect
	k8s.io/component-base v0.32.3 // indirect
	k8s.io/klog/v2 v2.130.1 // indirect
	k8s.io/kube-openapi v0.0.0-20241212222426-2c72e554b1e7 // indirect
	k8s.io/utils v0.0.0-20241210054802-24370beab758 // indirect
	oras.land/oras-go/v2 v2.5.0 // indirect
	sigs.k8s.io/controller-runtime v0.20.4 // indirect
	sigs.k8s.io/json v0.0.0-20241014173422-cfa47c3a1cc8 // indirect
	sigs.k8s.io/kustomize/api v0.18.0 // indirect
	sigs.k8s.io/kustomize/kyaml v0.19.0 // indirect
	sigs.k8s.io/structured-merge-diff/v4 v4.5.0 // indirect
)

replace helm.sh/helm/v4 => /repo
