package sim

// C09, last sentence — "Concurrent use of one storage backend from several goroutines is free of data races" — for the
// Kubernetes-object backends as action.Configuration.Init builds them: one Secrets/ConfigMaps driver on top of Helm's
// lazily constructed client, shared by several goroutines of one SDK process. Runs only under the race detector
// (variants race-lazy-ok / race-lazy-fail of the race tier). The fault: the client cannot be built (unreadable
// kubeconfig), so every storage call ends in the construction error.

import (
	"errors"
	"fmt"
	"io"
	"net/http"
	"strings"
	"sync"
	"testing"
	"time"

	"k8s.io/client-go/rest"

	"helm.sh/helm/v4/pkg/action"
	release "helm.sh/helm/v4/pkg/release/v1"
)

// lockedRT serves requests from a simulated API server, one at a time (the server itself is not the subject here).
type lockedRT struct {
	mu  *sync.Mutex
	srv *APIServer
}

func (d lockedRT) RoundTrip(req *http.Request) (*http.Response, error) {
	var body []byte
	if req.Body != nil {
		body, _ = io.ReadAll(req.Body)
		req.Body.Close()
	}
	d.mu.Lock()
	defer d.mu.Unlock()
	return d.srv.Handle(req.Method, req.URL.Path, req.URL.Query(), req.Header.Get("Content-Type"), body).HTTP(req), nil
}

// lazyGetter is the RESTClientGetter handed to Configuration.Init; with fail set no client can be built.
type lazyGetter struct {
	*simFactory
	fail bool
}

func (g *lazyGetter) ToRESTConfig() (*rest.Config, error) {
	if g.fail {
		return nil, errors.New("simulated: kubeconfig is not readable")
	}
	return g.simFactory.ToRESTConfig()
}

func ExecuteLazyShared(t *testing.T, plan *Plan) *RunResult {
	res := &RunResult{Check: plan.Check, Seed: plan.Seed, Index: plan.Index, Variant: plan.Variant, FaultsFired: map[string]int{}, Probes: map[string]int{}}
	t0 := time.Now()
	defer func() { res.WallMs = float64(time.Since(t0).Microseconds()) / 1000 }()
	fail := strings.HasSuffix(plan.Variant, "-fail")
	ns := plan.Namespace
	srv := NewAPIServer(time.Now)
	nsRes, _ := resByKind("Namespace")
	srv.Put(nsRes, map[string]interface{}{"metadata": map[string]interface{}{"name": ns}})
	rcfg := &rest.Config{Host: "http://sim.cluster.local", Transport: lockedRT{&sync.Mutex{}, srv}, QPS: -1,
		ContentConfig: rest.ContentConfig{ContentType: "application/json", AcceptContentTypes: "application/json"}}
	g := &lazyGetter{simFactory: &simFactory{cfg: rcfg, ns: ns, mapper: staticMapper()}, fail: fail}
	ac := &action.Configuration{}
	drv := "secret"
	if plan.Backend == "configmaps" {
		drv = "configmap"
	}
	if err := ac.Init(g, ns, drv); err != nil {
		res.Infra = "Configuration.Init: " + err.Error()
		return res
	}
	if fail {
		res.FaultsFired["client-build-fails"]++
	}
	st := ac.Releases
	workers := 2 + int(plan.Index%3)
	var okN, errN int64
	var cmu sync.Mutex
	done := make(chan struct{})
	var wg sync.WaitGroup
	for w := 0; w < workers; w++ {
		wg.Add(1)
		go func(w int) {
			defer wg.Done()
			note := func(err error) {
				cmu.Lock()
				if err == nil {
					okN++
				} else {
					errN++
				}
				cmu.Unlock()
			}
			for k := 0; k < 3; k++ {
				rel := &release.Release{Name: plan.Release, Namespace: ns, Version: 1 + k, Info: &release.Info{Status: release.StatusDeployed}}
				_, err := st.Last(plan.Release)
				note(err)
				note(st.Create(rel))
				_, err = st.History(plan.Release)
				note(err)
				_, err = st.Get(plan.Release, 1+k)
				note(err)
				if w == 0 {
					_, err = st.Delete(plan.Release, 1+k)
					note(err)
				}
			}
		}(w)
	}
	go func() { wg.Wait(); close(done) }()
	select {
	case <-done:
	case <-time.After(20 * time.Second):
		// goroutines that never come back are left behind; what the race detector printed meanwhile is the finding
		res.Probes["lazy-shared-stuck"]++
	}
	cmu.Lock()
	res.Checks = int(okN + errN)
	res.Outcome = fmt.Sprintf("lazy-shared %s workers=%d fail=%v", drv, workers, fail)
	cmu.Unlock()
	res.Probes["lazy-shared:"+plan.Variant]++
	res.NonTrivial = true
	res.Events = workers * 3
	res.Signature = bodyHash([]byte(res.Outcome))
	res.EventHash = res.Signature
	return res
}
