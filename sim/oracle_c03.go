package sim

// C03 — a failed operation is contained; --atomic restores the last good state.

import (
	"fmt"
	"regexp"
	"strings"
)

// c03Fault returns the request hit by the single cluster-side fault of this
// step, or nil if the fault did not fire on a call the property speaks about.
func c03Fault(x *Exec, r *OpResult) *ReqRecord {
	var hit *ReqRecord
	n := 0
	for _, q := range r.Reqs {
		if q.Fault == "" {
			continue
		}
		n++
		hit = q
	}
	if n != 1 {
		return nil
	}
	switch hit.Verb {
	case "WAIT", "WATCH", "WAITDEL":
		return hit
	}
	if hit.ID == nil || x.isRecordID(*hit.ID) {
		return nil // discovery or storage: not a cluster-side resource call
	}
	return hit
}

func oracleC03(x *Exec, so *StepObs) {
	if so.After == nil || len(so.Results) != 1 {
		return
	}
	const P = "C03"
	r := so.Results[0]
	op := &r.Op
	if op.Op != "install" && op.Op != "upgrade" && op.Op != "rollback" {
		return
	}
	if isDryOp(op) || r.Crashed {
		return
	}
	hit := c03Fault(x, r)
	if hit == nil {
		return
	}
	opName := opSigName(op)
	x.cur = so
	cause := faultCause(hit) + "(" + kindOfTarget(x, hit) + ")" + ledgerCtx(so.Before)
	ns := x.Plan.Namespace
	fail := func(clause, detail string) {
		x.Violate(Violation{P, clause, opName, cause, detail, so.Index})
		x.stop = true
	}
	before, after := so.Before, so.After
	x.Res.Checks++
	x.Sim.Probe("c03-fault-judged")
	if r.OK {
		fail("error-returned", fmt.Sprintf("the cluster rejected %s %s (%s) but the operation reported success", hit.Verb, hit.Path, hit.Fault))
		return
	}
	// the atomic clauses are judged only when the injected fault is the only
	// thing the cluster refused during the operation
	onlyRefusal := true
	for _, q := range r.Reqs {
		if q != hit && q.SeqOut != 0 && !accepted(q) {
			onlyRefusal = false
		}
	}
	created := []int{}
	bset := revSet(before)
	for _, lr := range after.Ledger {
		if !bset[lr.Rev] {
			created = append(created, lr.Rev)
		}
	}
	depBefore := before.Deployed()
	if op.Atomic && !onlyRefusal {
		return
	}
	if op.Atomic && op.Op == "install" {
		x.Res.Checks += 2
		if len(after.Ledger) > len(before.Ledger) {
			fail("atomic-install-no-history", fmt.Sprintf("failed atomic install left history: %s", after.Summary()))
			return
		}
		mids, _ := ChartIDs(&x.Plan.Charts[op.Chart], op.Values, ns)
		keep := map[string]bool{}
		for i := range x.Plan.Charts[op.Chart].Slots {
			s := &x.Plan.Charts[op.Chart].Slots[i]
			if isKeep(s.Keep) {
				keep[slotID(s, ns).String()] = true
			}
		}
		for _, id := range mids {
			if keep[id.String()] || before.Cluster[id.String()] != nil {
				continue
			}
			if after.Cluster[id.String()] != nil {
				fail("atomic-install-no-resources", fmt.Sprintf("failed atomic install left %s in the cluster", id))
				return
			}
		}
		x.Sim.Probe("atomic-install-rolled-back")
		return
	}
	if op.Atomic && op.Op == "upgrade" {
		if len(created) == 0 {
			return // failed before a revision was created: nothing to restore
		}
		x.Res.Checks += 3
		// most recent revision that had been deployed before this operation
		good := 0
		for rev := range x.everDepBefore(so) {
			if rev > good {
				good = rev
			}
		}
		if good == 0 {
			return // no previously successful release: Helm documents that it cannot roll back
		}
		top := after.Ledger[len(after.Ledger)-1]
		goodRec := before.Rev(good)
		if goodRec == nil {
			return
		}
		if top.Status != "deployed" || !bsetHas(created, top.Rev) {
			cause += ":" + errClass(r.Err)
			fail("atomic-upgrade-restores", fmt.Sprintf("failed atomic upgrade did not end with a new deployed revision: %s -> %s (err: %s)", before.Summary(), after.Summary(), trunc(r.Err, 300)))
			return
		}
		if top.Manifest != goodRec.Manifest {
			// which revision was restored instead? One labelled superseded that never was deployed (a failed upgrade whose
			// own automatic rollback failed too relabels it so) is a recorded finding of its own
			ever := x.everDepBefore(so)
			for _, lr := range before.Ledger {
				if lr.Rev > good && lr.Status == "superseded" && !ever[lr.Rev] && lr.Manifest == top.Manifest {
					cause += ":restored-a-superseded-revision-that-never-was-deployed"
					fail("atomic-upgrade-restores", fmt.Sprintf("revision %d carries the manifest of revision %d, which is labelled superseded but never was deployed (a failed upgrade relabelled by its failed rollback), not that of revision %d (the most recent revision that had been deployed)", top.Rev, lr.Rev, good))
					return
				}
			}
			fail("atomic-upgrade-restores", fmt.Sprintf("revision %d does not carry the manifest of revision %d (the most recent revision that had been deployed)", top.Rev, good))
			return
		}
		// the cluster must match the restored manifest - provided it matched the good revision's
		// manifest when the failed upgrade started (an earlier step may have left it diverged)
		if clusterMatches(goodRec.Manifest, ns, before.Cluster) == "" {
			if msg, cl := clusterMatchesClass(top.Manifest, ns, after.Cluster); msg != "" {
				cause += ":" + cl
				fail("atomic-upgrade-cluster", fmt.Sprintf("after the atomic rollback to the manifest of revision %d: %s", good, msg))
				return
			}
		} else {
			x.Sim.Probe("atomic-cluster-clause-skipped(diverged-before)")
		}
		for _, lr := range after.Ledger {
			if bsetHas(created, lr.Rev) && lr.Rev != top.Rev && lr.Status != "failed" && lr.Status != "superseded" {
				fail("created-revision-failed", fmt.Sprintf("revision %d created by the failed upgrade has status %s: %s", lr.Rev, lr.Status, after.Summary()))
				return
			}
		}
		x.Sim.Probe("atomic-upgrade-rolled-back")
		return
	}
	// non-atomic
	x.Res.Checks += 2
	for _, c := range created {
		lr := after.Rev(c)
		if lr.Status != "failed" {
			fail("created-revision-failed", fmt.Sprintf("revision %d created by the failed %s has status %s (err: %s): %s", c, op.Op, lr.Status, trunc(r.Err, 200), after.Summary()))
			return
		}
	}
	if op.Op == "install" || op.Op == "upgrade" {
		for _, d := range depBefore {
			lr := after.Rev(d)
			if lr == nil || lr.Status != "deployed" {
				st := "absent"
				if lr != nil {
					st = lr.Status
				}
				fail("previous-stays-deployed", fmt.Sprintf("revision %d was deployed before the failed %s and is now %s: %s", d, op.Op, st, after.Summary()))
				return
			}
		}
	}
	if op.Op == "upgrade" && op.CleanupOnFail && len(created) > 0 {
		x.Res.Checks++
		lr := after.Rev(created[len(created)-1])
		mids := idSet(ManifestIDs(lr.Manifest, ns))
		for _, q := range r.Reqs {
			if q.Verb != "POST" || q.Status != 201 || q.ID == nil || !mids[q.ID.String()] {
				continue
			}
			if before.Cluster[q.ID.String()] != nil {
				continue
			}
			if hit.Verb == "DELETE" && hit.ID != nil && hit.ID.String() == q.ID.String() {
				continue
			}
			if after.Cluster[q.ID.String()] != nil {
				fail("cleanup-on-fail", fmt.Sprintf("%s was newly created by the failed upgrade and still exists although cleanup-on-fail was set", q.ID))
				return
			}
			x.Sim.Probe("cleanup-deleted-created")
		}
		// … and only those: an object of the new manifest that was there before the upgrade was not created by it
		for _, q := range r.Reqs {
			if q.Verb != "DELETE" || q.Status != 200 || q.ID == nil || !mids[q.ID.String()] || before.Cluster[q.ID.String()] == nil {
				continue
			}
			fail("cleanup-on-fail", fmt.Sprintf("%s existed before the failed upgrade (it was not created by it) and was deleted by the cleanup", q.ID))
			return
		}
	}
}

var reNoResource = regexp.MustCompile(`no \w+ with the name "[^"]+" found`)

// errClass classifies Helm's own explanation of why the atomic rollback failed.
func errClass(e string) string {
	switch {
	case reNoResource.MatchString(e):
		return "rollback:no-resource-with-the-name-found"
	case strings.Contains(e, "an error occurred while rolling back"):
		return "rollback:other"
	}
	return "no-rollback"
}

func bsetHas(xs []int, v int) bool {
	for _, x := range xs {
		if x == v {
			return true
		}
	}
	return false
}

// kindOfTarget says what the faulted call addressed: a hook, a resource of the
// manifest being applied, or a resource that only the previous manifest names.
func kindOfTarget(x *Exec, q *ReqRecord) string {
	if q.ID == nil {
		return "wait"
	}
	if strings.HasPrefix(q.ID.Name, "hk-") {
		return "hook"
	}
	if len(x.Steps) > 0 || true {
		so := x.cur
		if so != nil && len(so.Results) == 1 {
			r := so.Results[0]
			var newIDs map[string]bool
			switch r.Op.Op {
			case "install", "upgrade":
				m, _ := ChartIDs(&x.Plan.Charts[r.Op.Chart], r.Op.Values, x.Plan.Namespace)
				newIDs = idSet(m)
			case "rollback":
				t := r.Op.Revision
				if t == 0 {
					t = so.Before.MaxRev() - 1
				}
				if lr := so.Before.Rev(t); lr != nil {
					newIDs = idSet(ManifestIDs(lr.Manifest, x.Plan.Namespace))
				}
			}
			if newIDs != nil && !newIDs[q.ID.String()] {
				return "obsolete-resource"
			}
		}
	}
	return "resource"
}

// everDepBefore: revisions observed as deployed at any observation up to the
// start of this step.
func (x *Exec) everDepBefore(so *StepObs) map[int]bool {
	m := map[int]bool{}
	for _, s := range x.Steps {
		if s.Index >= so.Index {
			break
		}
		for _, w := range []*WorldObs{s.Before, s.After} {
			if w == nil {
				continue
			}
			// a revision number that has left the history (uninstall purged it, pruning removed it) and comes back later
			// names another revision: what was observed about the old one does not carry over
			for rev := range m {
				if w.Rev(rev) == nil {
					delete(m, rev)
				}
			}
			for _, d := range w.Deployed() {
				m[d] = true
			}
		}
	}
	for _, d := range so.Before.Deployed() {
		m[d] = true
	}
	// only revisions that still exist can be restored
	for rev := range m {
		if so.Before.Rev(rev) == nil {
			delete(m, rev)
		}
	}
	return m
}

// c03Fault population: exactly one cluster-side fault on one operation.
var c03Codes = []int{403, 422, 500}

func genC03(seed, index uint64, tier string) *Plan {
	g := NewGen(seed, index, 3)
	p := baseC03(g, seed, index)
	// one fault on one install/upgrade/rollback step
	var cands []int
	for i, s := range p.Steps {
		if s.Op != nil && (s.Op.Op == "install" || s.Op.Op == "upgrade" || s.Op.Op == "rollback") {
			cands = append(cands, i)
		}
	}
	si := cands[g.N(len(cands))]
	f := FaultSpec{}
	switch g.Weighted(5, 2, 2, 2) {
	case 0:
		f.Kind = FReject
		f.Code = c03Codes[g.N(len(c03Codes))]
	case 1:
		f.Kind = FDrop
	case 2:
		f.Kind = FNotReady
		p.Steps[si].Op.Wait = true
	case 3:
		f.Kind = FHookFail
	}
	switch f.Kind {
	case FReject, FDrop:
		f.Pred = &Pred{Storage: boolp(false), Nth: 1 + g.N(12)}
		if g.Chance(0.6) {
			f.Pred.Mutating = boolp(true)
			f.Pred.Nth = 1 + g.N(6)
		}
		f.Pred.PathHas = "/namespaces/" // resource calls only, never discovery
	default:
		f.Pred = &Pred{Nth: 1 + g.N(2)}
	}
	p.Steps[si].Faults = []FaultSpec{f}
	p.Variant = "single-fault"
	return p.Clone()
}

func baseC03(g *Gen, seed, index uint64) *Plan {
	p := &Plan{Check: "C03", Seed: seed, Index: index, Namespace: "ns1", Release: "rel", ClientTOs: 30}
	p.Backend = g.Backend()
	co := g.SwarmChartOpts()
	co.MaxRes = 1 + g.N(4)
	p.Charts = g.ChartFamily(co)
	ho := &HistoryOpts{NVersions: len(p.Charts), Flags: true, WaitP: 0.5, AtomicP: 0.4, FirstInst: 1, NoTakeOwner: true}
	n := 1 + g.Weighted(3, 4, 3, 2)
	for i := 0; i < n; i++ {
		op := g.Op(i, ho)
		op.Force = false
		p.Steps = append(p.Steps, Step{Op: &op})
	}
	if g.Chance(0.06) {
		// a re-install that finds resources of its own already in the cluster (kept by the resource policy across an
		// uninstall --keep-history): install then goes through its update path instead of plain creation
		for ci := range p.Charts {
			for si := range p.Charts[ci].Slots {
				if s := &p.Charts[ci].Slots[si]; s.Hook == nil && s.Kind != "" && s.Kind != "Namespace" {
					s.Keep = "keep"
					break
				}
			}
		}
		re := OpSpec{Op: "install", Chart: g.N(len(p.Charts)), Replace: true, Atomic: g.Chance(0.4), Wait: g.Chance(0.5), TimeoutS: 60, Values: g.UserValues()}
		p.Steps = []Step{
			{Op: &OpSpec{Op: "install", Chart: 0, TimeoutS: 60}},
			{Op: &OpSpec{Op: "uninstall", KeepHistory: true, TimeoutS: 60}},
			{Op: &re},
		}
	}
	p.Policy = "uniform"
	p.Schedule = g.Schedule(32)
	return p
}

func sweepBaseC03(seed, index uint64, tier string) *Plan {
	g := NewGen(seed, index, 103)
	p := baseC03(g, seed, index)
	p.Variant = "sweep-base"
	return p.Clone()
}

// sweepKindsC03: the single cluster-side faults the property quantifies over.
func sweepKindsC03(p *Plan, step int, call string) []FaultSpec {
	op := p.Steps[step].Op
	if op == nil || (op.Op != "install" && op.Op != "upgrade" && op.Op != "rollback") {
		return nil
	}
	parts := strings.SplitN(call, " ", 2)
	verb, path := parts[0], ""
	if len(parts) > 1 {
		path = parts[1]
	}
	switch verb {
	case "WAIT", "WAITDEL":
		return []FaultSpec{{Kind: FNotReady}}
	case "WATCH":
		return []FaultSpec{{Kind: FHookFail}}
	case "STORE":
		return nil
	}
	if !strings.Contains(path, "/namespaces/") && !strings.Contains(path, "/clusterroles") {
		return nil
	}
	if strings.Contains(path, "sh.helm.release.v1.") || strings.HasSuffix(path, "/secrets") && p.Backend == "secrets" && verb != "POST" {
		return nil
	}
	return []FaultSpec{{Kind: FReject, Code: 403}, {Kind: FDrop}}
}
