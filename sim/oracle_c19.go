package sim

// C19 — repository credentials are sent only to the repository's own host.

import (
	"bytes"
	"encoding/json"
	"fmt"
	"io"
	"net/url"
	"os"
	"path/filepath"
	"sort"
	"strings"
	"sync"
	"testing"
	"testing/synctest"
	"time"

	"helm.sh/helm/v4/pkg/action"
	chart "helm.sh/helm/v4/pkg/chart/v2"
	chartutil "helm.sh/helm/v4/pkg/chart/v2/util"
	"helm.sh/helm/v4/pkg/cli"
	"helm.sh/helm/v4/pkg/downloader"
	"helm.sh/helm/v4/pkg/getter"
	"helm.sh/helm/v4/pkg/provenance"
	"helm.sh/helm/v4/pkg/repo"
)

type RepoSpec struct {
	Name      string `json:"name"`
	URL       string `json:"url"`
	User      string `json:"user"`
	Pass      string `json:"pass"`
	PassAll   bool   `json:"passAll,omitempty"`
	Chart     string `json:"chart"`              // chart name served by this repository
	ChartURL  string `json:"chartURL"`           // URL as written in the index
	Redirect  string `json:"redirect,omitempty"` // the chart URL answers 302 to this location
	Variant   string `json:"variant"`            // how ChartURL relates to URL
	DelayMs   int    `json:"delayMs,omitempty"`
	AlsoChart string `json:"alsoChart,omitempty"` // a second index entry: chart name …
	AlsoURL   string `json:"alsoURL,omitempty"`   // … and its absolute URL (a chart another repository lists too)
}

type NetSpec struct {
	Path    string     `json:"path"` // getter | dl-ref | dl-url | locate | manager
	Repos   []RepoSpec `json:"repos"`
	Verify  bool       `json:"verify,omitempty"`
	Reuse   bool       `json:"reuse,omitempty"` // dl-seq: one ChartDownloader value serves every download (SDK use), not one per download
	StallS  int        `json:"stallS,omitempty"`
	C17     *C17Spec   `json:"c17,omitempty"`
	Resign  *DiskFault `json:"resign,omitempty"`  // C20b: the provenance text was damaged on the publisher's disk BEFORE it was signed with the trusted key
	Transit *Route     `json:"transit,omitempty"` // C20b: damage applied to one artefact in transit
	Target  string     `json:"target,omitempty"`  // which artefact Transit hits: index chart prov
}

var (
	chartTgzOnce sync.Once
	chartTgz     map[string][]byte
)

// chartArchive returns a packaged chart with the given name (built once per process).
func chartArchive(name string) []byte {
	chartTgzOnce.Do(func() { chartTgz = map[string][]byte{} })
	if b, ok := chartTgz[name]; ok {
		return b
	}
	dir, err := os.MkdirTemp("", "verif-pkg-")
	if err != nil {
		panic(err)
	}
	defer os.RemoveAll(dir)
	ch := &chart.Chart{
		// (a description line ending in three dots: the signed message separates metadata and digests with a line of three dots)
		Metadata:  &chart.Metadata{APIVersion: "v2", Name: name, Version: "1.0.0", Type: "application", Description: "Deploys the API, the workers, etc..."},
		Templates: []*chart.File{{Name: "templates/cm.yaml", Data: []byte("apiVersion: v1\nkind: ConfigMap\nmetadata:\n  name: " + name + "\n")}},
		Values:    map[string]interface{}{},
	}
	path, err := chartutil.Save(ch, dir)
	if err != nil {
		panic(err)
	}
	b, err := os.ReadFile(path)
	if err != nil {
		panic(err)
	}
	chartTgz[name] = b
	return b
}

func indexYAML(chartName, chartURL string) []byte {
	return []byte(fmt.Sprintf(`apiVersion: v1
entries:
  %s:
  - apiVersion: v2
    name: %s
    version: 1.0.0
    urls:
    - %q
generated: "2000-01-01T00:00:00Z"
`, chartName, chartName, chartURL))
}

// routeKey normalises a URL into the key the simulated network routes on.
func routeKey(raw string) string {
	u, err := url.Parse(raw)
	if err != nil {
		return raw
	}
	return u.Scheme + "://" + normAddr(u.Scheme, u.Host) + u.Path
}

func netProviders(n *NetSim) getter.Providers {
	return getter.Providers{{
		Schemes: []string{"http", "https"},
		New: func(options ...getter.Option) (getter.Getter, error) {
			options = append(options, getter.WithTimeout(120*time.Second), getter.WithTransport(n.Transport))
			return getter.NewHTTPGetter(options...)
		},
	}}
}

// setupRepos installs routes and artefacts for every repository of the spec and
// returns the resolved chart URL of each.
func setupRepos(n *NetSim, spec *NetSpec) []string {
	var resolved []string
	for i := range spec.Repos {
		r := &spec.Repos[i]
		idxURL, _ := repo.ResolveReferenceURL(stripUserinfo(r.URL), "index.yaml")
		n.Artefacts["index:"+r.Name] = indexYAML(r.Chart, r.ChartURL)
		if r.AlsoChart != "" {
			extra := fmt.Sprintf("  %s:\n  - apiVersion: v2\n    name: %s\n    version: 1.0.0\n    urls:\n    - %q\ngenerated:", r.AlsoChart, r.AlsoChart, r.AlsoURL)
			n.Artefacts["index:"+r.Name] = []byte(strings.Replace(string(n.Artefacts["index:"+r.Name]), "generated:", extra, 1))
		}
		n.Routes[routeKey(idxURL)] = &Route{Artefact: "index:" + r.Name, DelayMs: r.DelayMs}
		abs, err := repo.ResolveReferenceURL(stripUserinfo(r.URL), r.ChartURL)
		if err != nil {
			abs = r.ChartURL
		}
		resolved = append(resolved, abs)
		n.Artefacts["chart:"+r.Chart] = chartArchive(r.Chart)
		if strings.HasPrefix(r.ChartURL, "//") {
			// the dependency manager joins such a reference onto the repository path; serve that spelling as well
			if ru, err := url.Parse(stripUserinfo(r.URL)); err == nil {
				n.Routes[ru.Scheme+"://"+normAddr(ru.Scheme, ru.Host)+strings.TrimSuffix(ru.Path, "/")+"/"+strings.TrimPrefix(r.ChartURL, "//")] = &Route{Artefact: "chart:" + r.Chart}
			}
		}
		if r.Redirect != "" {
			n.Routes[routeKey(abs)] = &Route{Redirect: r.Redirect}
			n.Routes[routeKey(r.Redirect)] = &Route{Artefact: "chart:" + r.Chart}
		} else {
			n.Routes[routeKey(abs)] = &Route{Artefact: "chart:" + r.Chart}
		}
	}
	return resolved
}

func stripUserinfo(raw string) string {
	u, err := url.Parse(raw)
	if err != nil {
		return raw
	}
	u.User = nil
	return u.String()
}

// writeRepoFiles writes repositories.yaml and the cached index files.
func writeRepoFiles(dir string, n *NetSim, spec *NetSpec, withCache bool) (cfg, cache string) {
	cfg = filepath.Join(dir, "repositories.yaml")
	cache = filepath.Join(dir, "cache")
	os.MkdirAll(cache, 0o755)
	f := repo.NewFile()
	for _, r := range spec.Repos {
		f.Add(&repo.Entry{Name: r.Name, URL: r.URL, Username: r.User, Password: r.Pass, PassCredentialsAll: r.PassAll})
		if withCache {
			os.WriteFile(filepath.Join(cache, r.Name+"-index.yaml"), n.Artefacts["index:"+r.Name], 0o644)
		}
	}
	if err := f.WriteFile(cfg, 0o644); err != nil {
		panic(err)
	}
	return
}

// ExecuteC19 runs one credential-scoping scenario.
func ExecuteC19(t *testing.T, plan *Plan) *RunResult {
	res := &RunResult{Check: plan.Check, Seed: plan.Seed, Index: plan.Index, Variant: plan.Variant, FaultsFired: map[string]int{}, Probes: map[string]int{}}
	t0 := time.Now()
	defer func() { res.WallMs = float64(time.Since(t0).Microseconds()) / 1000 }()
	defer func() {
		if r := recover(); r != nil {
			msg := fmt.Sprint(r)
			if strings.Contains(msg, "deadlock") {
				return
			}
			res.Infra = "panic in netsim harness: " + msg
		}
	}()
	spec := plan.Net
	dir, err := os.MkdirTemp("", "verif-c19-")
	if err != nil {
		res.Infra = err.Error()
		return res
	}
	defer os.RemoveAll(dir)
	var n *NetSim
	var opErr error
	synctest.Test(t, func(t *testing.T) {
		n = NewNetSim()
		defer n.Close()
		resolved := setupRepos(n, spec)
		provs := netProviders(n)
		r0 := spec.Repos[0]
		switch spec.Path {
		case "getter":
			g, _ := provs.ByScheme("https")
			_, opErr = g.Get(resolved[0], getter.WithURL(r0.URL), getter.WithBasicAuth(r0.User, r0.Pass), getter.WithPassCredentialsAll(r0.PassAll))
		case "dl-ref", "dl-url":
			cfg, cache := writeRepoFiles(dir, n, spec, true)
			dl := downloader.ChartDownloader{Out: io.Discard, Getters: provs, RepositoryConfig: cfg, RepositoryCache: cache, Verify: downloader.VerifyNever}
			if spec.Verify {
				dl.Verify = downloader.VerifyIfPossible
			}
			ref := r0.Name + "/" + r0.Chart
			if spec.Path == "dl-url" {
				ref = resolved[0]
			}
			dest := filepath.Join(dir, "dest")
			os.MkdirAll(dest, 0o755)
			_, _, opErr = dl.DownloadTo(ref, "1.0.0", dest)
		case "dl-seq":
			// one set of providers (getter.All, as every command builds it) serves several downloads in turn, each through a
			// downloader of its own, the way the dependency manager does: a private repository first, then a public one
			getter.VerifSetDefaultTransport(n.Transport)
			defer getter.VerifSetDefaultTransport(nil)
			cfg, cache := writeRepoFiles(dir, n, spec, true)
			settings := cli.New()
			settings.RepositoryConfig = cfg
			settings.RepositoryCache = cache
			settings.PluginsDirectory = filepath.Join(dir, "no-plugins")
			shared := getter.All(settings)
			var one *downloader.ChartDownloader
			for i, r := range spec.Repos {
				dl := &downloader.ChartDownloader{Out: io.Discard, Getters: shared, RepositoryConfig: cfg, RepositoryCache: cache, Verify: downloader.VerifyNever}
				if spec.Verify {
					dl.Verify = downloader.VerifyIfPossible
				}
				if spec.Reuse {
					if one == nil {
						one = dl
					}
					dl = one
				}
				dest := filepath.Join(dir, fmt.Sprintf("dest%d", i))
				os.MkdirAll(dest, 0o755)
				if _, _, err := dl.DownloadTo(r.Name+"/"+r.Chart, "1.0.0", dest); err != nil && opErr == nil {
					opErr = err
				}
			}
		case "locate":
			getter.VerifSetDefaultTransport(n.Transport)
			defer getter.VerifSetDefaultTransport(nil)
			cfg, cache := writeRepoFiles(dir, n, &NetSpec{}, false)
			settings := cli.New()
			settings.RepositoryConfig = cfg
			settings.RepositoryCache = cache
			settings.PluginsDirectory = filepath.Join(dir, "no-plugins")
			cpo := action.ChartPathOptions{RepoURL: r0.URL, Username: r0.User, Password: r0.Pass, PassCredentialsAll: r0.PassAll, Version: "1.0.0", Verify: spec.Verify}
			wd, _ := os.Getwd()
			os.Chdir(dir)
			_, opErr = cpo.LocateChart(r0.Chart, settings)
			os.Chdir(wd)
		case "pull":
			// helm pull --repo URL --username … CHART
			getter.VerifSetDefaultTransport(n.Transport)
			defer getter.VerifSetDefaultTransport(nil)
			cfg, cache := writeRepoFiles(dir, n, &NetSpec{}, false)
			settings := cli.New()
			settings.RepositoryConfig = cfg
			settings.RepositoryCache = cache
			settings.PluginsDirectory = filepath.Join(dir, "no-plugins")
			pl := action.NewPull(action.WithConfig(&action.Configuration{}))
			pl.Settings = settings
			pl.RepoURL, pl.Username, pl.Password, pl.PassCredentialsAll, pl.Version = r0.URL, r0.User, r0.Pass, r0.PassAll, "1.0.0"
			pl.DestDir = filepath.Join(dir, "dest")
			os.MkdirAll(pl.DestDir, 0o755)
			_, opErr = pl.Run(r0.Chart)
		case "manager":
			cfg, cache := writeRepoFiles(dir, n, spec, false)
			cdir := filepath.Join(dir, "parent")
			os.MkdirAll(cdir, 0o755)
			var deps strings.Builder
			for _, r := range spec.Repos {
				fmt.Fprintf(&deps, "- name: %s\n  version: 1.0.0\n  repository: %q\n", r.Chart, stripUserinfo(r.URL))
			}
			os.WriteFile(filepath.Join(cdir, "Chart.yaml"), []byte("apiVersion: v2\nname: parent\nversion: 0.1.0\ndependencies:\n"+deps.String()), 0o644)
			m := &downloader.Manager{Out: io.Discard, ChartPath: cdir, Getters: provs, RepositoryConfig: cfg, RepositoryCache: cache, Verify: downloader.VerifyNever}
			if spec.Verify {
				m.Verify = downloader.VerifyIfPossible
			}
			opErr = m.Update()
		case "manager-build":
			// helm dependency build --skip-refresh with a Chart.lock that pins a version the (stale) cached index does not
			// know while the repository's live index does: the cache, not the live index, says whose archive a URL is
			cfg, cache := writeRepoFiles(dir, n, spec, false)
			cdir := filepath.Join(dir, "parent")
			os.MkdirAll(cdir, 0o755)
			var deps, lockDeps strings.Builder
			var req, locked []*chart.Dependency
			for _, r := range spec.Repos {
				os.WriteFile(filepath.Join(cache, r.Name+"-index.yaml"), bytes.ReplaceAll(n.Artefacts["index:"+r.Name], []byte("version: 1.0.0"), []byte("version: 0.9.0")), 0o644)
				ru := stripUserinfo(r.URL)
				fmt.Fprintf(&deps, "- name: %s\n  version: 1.0.0\n  repository: %q\n", r.Chart, ru)
				fmt.Fprintf(&lockDeps, "- name: %s\n  repository: %q\n  version: 1.0.0\n", r.Chart, ru)
				req = append(req, &chart.Dependency{Name: r.Chart, Version: "1.0.0", Repository: ru})
				locked = append(locked, &chart.Dependency{Name: r.Chart, Version: "1.0.0", Repository: ru})
			}
			data, _ := json.Marshal([2][]*chart.Dependency{req, locked})
			sum, _ := provenance.Digest(bytes.NewBuffer(data))
			os.WriteFile(filepath.Join(cdir, "Chart.yaml"), []byte("apiVersion: v2\nname: parent\nversion: 0.1.0\ndependencies:\n"+deps.String()), 0o644)
			os.WriteFile(filepath.Join(cdir, "Chart.lock"), []byte("dependencies:\n"+lockDeps.String()+"digest: sha256:"+sum+"\ngenerated: \"2020-01-02T03:04:05Z\"\n"), 0o644)
			m := &downloader.Manager{Out: io.Discard, ChartPath: cdir, Getters: provs, RepositoryConfig: cfg, RepositoryCache: cache, Verify: downloader.VerifyNever, SkipUpdate: true}
			opErr = m.Build()
		default:
			panic("unknown path " + spec.Path)
		}
	})
	// ---- oracle ----
	violate := func(clause, cause, detail string) {
		res.Violations = append(res.Violations, Violation{"C19", clause, spec.Path, cause, detail, 0})
	}
	credOwner := map[string]*RepoSpec{}
	for i := range spec.Repos {
		if spec.Repos[i].User != "" {
			credOwner[spec.Repos[i].User+":"+spec.Repos[i].Pass] = &spec.Repos[i]
		}
	}
	sent, own := 0, 0
	var outcome []string
	for _, q := range n.Log {
		res.Checks++
		mark := ""
		if q.HasAuth {
			mark = "+auth"
		}
		outcome = append(outcome, fmt.Sprintf("%s://%s%s%s=%d", q.Scheme, q.Addr, q.Path, mark, q.Status))
		if !q.HasAuth {
			continue
		}
		r := credOwner[q.AuthUser+":"+q.AuthPass]
		if r == nil {
			continue // not a repository credential (e.g. the chart URL's own userinfo)
		}
		sent++
		ru, err := url.Parse(r.URL)
		if err != nil {
			continue
		}
		if q.Scheme == ru.Scheme && q.Addr == normAddr(ru.Scheme, ru.Host) {
			own++
			continue
		}
		if r.PassAll {
			res.Probes["pass-credentials-all-used"]++
			continue
		}
		if r.Redirect != "" && q.Scheme+"://"+q.Addr+q.Path == routeKey(r.Redirect) {
			// redirect follow-up by the standard library's client: the statement only forbids
			// unrelated domains here, so the same host or a sub-domain of the redirecting host is accepted
			if abs, err := repo.ResolveReferenceURL(stripUserinfo(r.URL), r.ChartURL); err == nil {
				if pu, err := url.Parse(abs); err == nil {
					ph, qh := strings.ToLower(pu.Hostname()), hostOnly(q.Addr)
					if qh == ph || strings.HasSuffix(qh, "."+ph) {
						res.Probes["redirect-same-domain-kept-auth"]++
						continue
					}
				}
			}
		}
		cause := r.Variant + redirectTag(r)
		if spec.Reuse {
			cause += "+same-downloader"
		}
		violate("credentials-only-to-origin", cause, fmt.Sprintf("credentials of repository %s (%s) were sent to %s://%s%s", r.Name, r.URL, q.Scheme, q.Addr, q.Path))
		break
	}
	if own > 0 {
		res.Probes["credentials-reached-own-origin"]++
	}
	for _, r := range spec.Repos {
		res.Probes["variant:"+r.Variant]++
	}
	if opErr != nil {
		res.Probes["operation-error"]++
	} else {
		res.Probes["operation-ok"]++
	}
	res.Outcome = fmt.Sprintf("%s err=%q requests: %s", spec.Path, trunc(fmt.Sprint(opErr), 80), strings.Join(outcome, " "))
	res.Signature = bodyHash([]byte(res.Outcome))
	res.NonTrivial = len(n.Log) >= 1
	res.Events = len(n.Log)
	// concurrent index downloads arrive in an order the harness does not decide: hash the sorted request set
	so := append([]string{}, outcome...)
	sort.Strings(so)
	res.EventHash = bodyHash([]byte(fmt.Sprintf("%s|%v|%s|%d", spec.Path, opErr != nil, strings.Join(so, " "), len(res.Violations))))
	_ = sent
	return res
}

func redirectTag(r *RepoSpec) string {
	if r.Redirect != "" {
		return "+redirect"
	}
	return ""
}

var c19Hosts = []string{"repo1.example.com", "charts.corp.example", "r.test"}

func genC19(seed, index uint64, tier string) *Plan {
	g := NewGen(seed, index, 19)
	p := &Plan{Check: "C19", Seed: seed, Index: index, Backend: "none"}
	spec := &NetSpec{Path: g.Pick("getter", "dl-ref", "dl-url", "locate", "manager", "pull", "manager-build", "dl-seq")}
	nrepos := 1
	if spec.Path == "dl-seq" {
		nrepos = 2 + g.N(2)
		spec.Reuse = g.Chance(0.4)
	}
	if spec.Path == "manager" || spec.Path == "manager-build" {
		nrepos = 1 + g.N(3)
	}
	for i := 0; i < nrepos; i++ {
		scheme := g.Pick("https", "https", "http")
		host := c19Hosts[i%len(c19Hosts)]
		port := ""
		if g.Chance(0.3) {
			port = g.Pick(":8443", ":443", ":80", ":8080")
		}
		path := g.Pick("", "/charts", "/a/b")
		r := RepoSpec{Name: fmt.Sprintf("repo%d", i), Chart: fmt.Sprintf("mychart%d", i), User: fmt.Sprintf("user%d-%d", i, g.N(1000)), Pass: fmt.Sprintf("pw%d-%d", i, g.N(100000)),
			PassAll: g.Chance(0.15), DelayMs: g.N(500)}
		r.URL = scheme + "://" + host + port + path
		if g.Chance(0.1) && spec.Path != "manager" {
			r.URL = scheme + "://urluser:urlpw@" + host + port + path
		}
		file := "/" + r.Chart + "-1.0.0.tgz"
		base := scheme + "://" + host + port
		other := "http"
		if scheme == "http" {
			other = "https"
		}
		switch g.N(17) {
		case 0:
			r.Variant, r.ChartURL = "relative", "charts"+file
		case 1:
			r.Variant, r.ChartURL = "abs-same", base+path+"/charts"+file
		case 2:
			r.Variant, r.ChartURL = "abs-same-uppercase-host", scheme+"://"+strings.ToUpper(host)+port+path+file
		case 3:
			dp := ":443"
			if scheme == "http" {
				dp = ":80"
			}
			if port == "" {
				r.Variant, r.ChartURL = "abs-same-default-port-spelled", scheme+"://"+host+dp+path+file
			} else {
				r.Variant, r.ChartURL = "abs-port-omitted", scheme+"://"+host+path+file
			}
		case 4:
			r.Variant, r.ChartURL = "abs-other-port", scheme+"://"+host+":9443"+file
		case 5:
			r.Variant, r.ChartURL = "abs-other-scheme", other+"://"+host+port+path+file
		case 6:
			r.Variant, r.ChartURL = "abs-subdomain", scheme+"://cdn."+host+port+file
		case 7:
			r.Variant, r.ChartURL = "abs-sibling", scheme+"://mirror.example.com"+file
		case 8:
			r.Variant, r.ChartURL = "abs-unrelated", scheme+"://evil.example.net"+file
		case 9:
			r.Variant, r.ChartURL = "abs-lookalike-suffix", scheme+"://"+host+".evil.example.net"+file
		case 10:
			r.Variant, r.ChartURL = "abs-userinfo-trick", scheme+"://"+host+"@evil.example.net"+file
		case 11:
			r.Variant, r.ChartURL = "abs-own-userinfo", scheme+"://someone:else@cdn.example.org"+file
		case 12:
			r.Variant, r.ChartURL = "abs-trailing-dot", scheme+"://"+host+"."+port+path+file
		case 13:
			r.Variant, r.ChartURL = "scheme-relative-foreign", "//evil.example.net"+file
		case 14:
			r.Variant, r.ChartURL = "scheme-relative-other-port", "//"+host+":9443"+file
		case 15:
			// host names are case-insensitive: a foreign host stays foreign however it is spelled
			r.Variant, r.ChartURL = "abs-unrelated-mixed-case", scheme+"://EVIL.Example.NET"+file
		case 16:
			r.Variant, r.ChartURL = "abs-sibling-mixed-case", scheme+"://Mirror.Example.COM"+path+file
		}
		if g.Chance(0.25) {
			switch g.N(4) {
			case 0:
				r.Redirect = scheme + "://" + host + ":7443/redirected" + file
			case 1:
				r.Redirect = scheme + "://dl." + host + "/redirected" + file
			case 2:
				r.Redirect = scheme + "://evil.example.net/redirected" + file
			case 3:
				r.Redirect = other + "://" + host + "/redirected" + file
			}
		}
		if spec.Path == "dl-seq" && i > 0 && g.Chance(0.7) {
			r.User, r.Pass, r.PassAll = "", "", false // a public repository, asked after a private one
		}
		spec.Repos = append(spec.Repos, r)
	}
	if spec.Path == "manager" && len(spec.Repos) >= 2 && g.Chance(0.15) {
		// a public repository without credentials (listed first) and a private one whose index points at an archive on the
		// public repository's origin, which the public index lists as well: the archive has two "owners"
		pub, priv := &spec.Repos[0], &spec.Repos[1]
		pub.User, pub.Pass, pub.PassAll = "", "", false
		if pu, err := url.Parse(pub.URL); err == nil {
			pu.User = nil
			pub.URL = pu.String()
			priv.ChartURL = pu.Scheme + "://" + pu.Host + "/shared/" + priv.Chart + "-1.0.0.tgz"
			priv.Variant = "abs-on-credential-less-repository-that-lists-it-too"
			priv.Redirect = ""
			pub.AlsoChart, pub.AlsoURL = priv.Chart, priv.ChartURL
			if g.Chance(0.5) {
				// … or lists it with a relative reference that resolves to the same URL (then the public repository is
				// not the owner by Helm's comparison of raw index entries, and the private one is)
				rel := "shared/" + priv.Chart + "-1.0.0.tgz"
				if abs, err := repo.ResolveReferenceURL(pub.URL, rel); err == nil {
					priv.ChartURL = abs
					pub.AlsoURL = rel
					priv.Variant = "abs-on-credential-less-repository-that-lists-it-relatively"
				}
			}
		}
	}
	spec.Verify = g.Chance(0.4)
	p.Net = spec
	p.Variant = spec.Path
	return p.Clone()
}
