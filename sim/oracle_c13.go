package sim

// C13 — upgrade carries user values forward exactly as the chosen flag says.

import (
	"encoding/json"
	"fmt"
	"reflect"
	"strings"
)

// overlay returns old overlaid key by key with neu (maps merge, everything else replaces).
func overlay(neu, old map[string]interface{}) map[string]interface{} {
	out := map[string]interface{}{}
	for k, v := range old {
		out[k] = deepCopyJSON(v)
	}
	for k, v := range neu {
		nm, nok := v.(map[string]interface{})
		om, ook := out[k].(map[string]interface{})
		if nok && ook {
			out[k] = overlay(nm, om)
		} else {
			out[k] = deepCopyJSON(v)
		}
	}
	return out
}

// stripNulls removes null-valued keys recursively (whether a null that deletes
// nothing is kept is not specified).
func stripNulls(v interface{}) interface{} {
	switch t := v.(type) {
	case map[string]interface{}:
		out := map[string]interface{}{}
		for k, x := range t {
			if x == nil {
				continue
			}
			out[k] = stripNulls(x)
		}
		return out
	case []interface{}:
		out := make([]interface{}, len(t))
		for i, x := range t {
			out[i] = stripNulls(x)
		}
		return out
	}
	return v
}

func normVals(m map[string]interface{}) interface{} {
	if m == nil {
		m = map[string]interface{}{}
	}
	return stripNulls(normJSON(m))
}

func asMap(v interface{}) map[string]interface{} {
	if m, ok := v.(map[string]interface{}); ok {
		return m
	}
	return map[string]interface{}{}
}

func oracleC13(x *Exec, so *StepObs) {
	if so.After == nil || len(so.Results) != 1 {
		return
	}
	const P = "C13"
	r := so.Results[0]
	op := &r.Op
	if !r.OK || r.Crashed || isDryOp(op) {
		return
	}
	created := createdRev(so)
	if created == 0 {
		return
	}
	lr := so.After.Rev(created)
	mode := "none"
	switch {
	case op.ResetValues:
		mode = "reset"
	case op.ReuseValues:
		mode = "reuse"
	case op.ResetThenReuse:
		mode = "reset-then-reuse"
	}
	fail := func(clause, cause, detail string) {
		x.Violate(Violation{P, clause, op.Op, cause + ledgerCtx(so.Before), detail, so.Index})
		x.stop = true
	}
	switch op.Op {
	case "rollback":
		x.Res.Checks++
		t := op.Revision
		if t == 0 {
			t = so.Before.MaxRev() - 1
		}
		tr := so.Before.Rev(t)
		if tr == nil {
			return
		}
		if !reflect.DeepEqual(normJSON(lr.Config), normJSON(tr.Config)) {
			fail("rollback-restores-values", "none", fmt.Sprintf("revision %d values %s differ from target revision %d values %s", created, js(lr.Config), t, js(tr.Config)))
		}
		x.Sim.Probe("c13-rollback")
	case "upgrade":
		dep := so.Before.Deployed()
		// the currently deployed revision by the history itself: the one the most recent successful operation created.
		// (A failed operation in between does not change which revision is deployed.)
		model := 0
		for _, prev := range x.Steps {
			if prev == so || prev.After == nil || len(prev.Results) != 1 {
				continue
			}
			pr := prev.Results[0]
			if pr.OK && !pr.Crashed && !isDryOp(&pr.Op) && (pr.Op.Op == "install" || pr.Op.Op == "upgrade" || pr.Op.Op == "rollback") {
				if c := createdRev(prev); c != 0 {
					model = c
				}
			}
		}
		switch {
		case len(dep) == 1 && (model == 0 || dep[0] == model):
		case len(dep) == 0 && model != 0 && so.Before.Rev(model) != nil:
			// the ledger marks nothing deployed although an operation succeeded and none succeeded since
			dep = []int{model}
			x.Sim.Probe("c13-deployed-from-history")
		default:
			return // no (unique) deployed revision: the value clause is not defined
		}
		d := so.Before.Rev(dep[0])
		x.Res.Checks += 2
		neu := asMap(normJSON(op.Values))
		if op.Values == nil {
			neu = map[string]interface{}{}
		}
		old := asMap(normJSON(d.Config))
		var want map[string]interface{}
		switch mode {
		case "reset":
			want = neu
		case "reuse", "reset-then-reuse":
			want = overlay(neu, old)
		default:
			if len(neu) > 0 {
				want = neu
			} else {
				want = old
			}
		}
		if dep[0] != so.Before.MaxRev() {
			x.Sim.Probe("c13-deployed-is-not-last")
		}
		x.Sim.Probe("c13-mode:" + mode)
		if !reflect.DeepEqual(stripNulls(want), normVals(lr.Config)) {
			fail("recorded-values", mode, fmt.Sprintf("mode %s: new=%s deployed(v%d)=%s recorded=%s expected=%s", mode, js(neu), dep[0], js(old), js(lr.Config), js(want)))
			return
		}
		if !c13SubClauses(x, lr.Manifest, neu, want, x.Plan.Charts[op.Chart].Values, mode, fail) {
			return
		}
		// effective values, read from the probe the chart renders
		var defaults map[string]interface{}
		if mode == "reuse" {
			// the chart defaults in force at the deployed revision, followed through the history: a revision made with
			// reuse-values (or by a rollback) inherits them from the revision it was made from
			inForce, tainted := c13DefaultsInForce(x, so)
			var ok bool
			if defaults, ok = inForce[dep[0]]; !ok || tainted[dep[0]] {
				return // (tainted: a null given to an earlier reuse-values upgrade of this chain; what it leaves behind is not specified)
			}
			x.Sim.Probe("c13-defaults-from-history")
			// the subchart's own defaults are chart defaults too: where neither the recorded user values nor the parent's
			// defaults say anything about a key of the subchart, the value in force at the deployed revision stays
			if !hasNull(want) && !hasNull(old) && !hasNull(neu) {
				for ci := range x.Plan.Charts {
					pc := &x.Plan.Charts[ci]
					if ci != c13InForceChart[dep[0]] || len(pc.Subcharts) == 0 || pc.Subcharts[0].Name != "sub" {
						continue
					}
					seen := probeValuesNamed(lr.Manifest, x.Plan.Namespace, "sub-probe")
					if _, parentSays := pc.Values["sub"]; seen == nil || parentSays {
						break
					}
					userSub, _ := want["sub"].(map[string]interface{})
					for _, path := range [][]string{{"s"}, {"t", "u"}, {"t", "w"}} {
						var u, sd, sv interface{} = userSub, map[string]interface{}(pc.Subcharts[0].Values), map[string]interface{}(seen)
						userSays := false
						for i, k := range path {
							if um, ok := u.(map[string]interface{}); ok {
								if v, has := um[k]; has {
									u = v
									if _, isMap := v.(map[string]interface{}); !isMap || i == len(path)-1 {
										userSays = true
									}
								} else {
									u = nil
								}
							} else if u != nil {
								userSays = true
							}
							sd = getMapAny(sd)[k]
							sv = getMapAny(sv)[k]
						}
						if userSays || sd == nil {
							continue
						}
						x.Res.Checks++
						if !reflect.DeepEqual(normJSON(sd), normJSON(sv)) {
							decl := "declared-subchart"
							if pc.Subcharts[0].Undeclared {
								decl = "undeclared-subchart"
							}
							x.Violate(Violation{"C13", "subchart-defaults-stay-in-force", op.Op, mode + ":" + decl + "@" + x.Plan.Backend, fmt.Sprintf("mode %s: subchart key %s is seen as %s; the default in force at deployed revision %d (chart version %s) is %s", mode, strings.Join(path, "."), js(sv), dep[0], pc.Version, js(sd)), so.Index})
							x.stop = true
							return
						}
						x.Sim.Probe("c13-subchart-defaults-judged")
					}
					break
				}
			}
		} else {
			defaults = x.Plan.Charts[op.Chart].Values
		}
		// how nulls and table/scalar conflicts between user values and defaults resolve is not
		// part of the statement: the effective-values clause is judged on trees without them
		if hasNull(want) || hasNull(old) || hasNull(neu) || hasNull(defaults) || shapeConflict(want, asMap(normJSON(defaults))) ||
			shapeConflict(old, asMap(normJSON(defaults))) || shapeConflict(neu, old) || shapeConflict(neu, asMap(normJSON(defaults))) {
			return
		}
		x.Sim.Probe("c13-effective-judged:" + mode)
		wantEff := stripNulls(overlay(asMap(normJSON(want)), asMap(normJSON(defaults))))
		got := probeValues(lr.Manifest, x.Plan.Namespace)
		if got == nil {
			return
		}
		delete(got, "global")
		delete(got, "sub") // the subchart's table is judged by the narrower clauses in c13SubClauses
		we := asMap(wantEff)
		delete(we, "global")
		delete(we, "sub")
		if !reflect.DeepEqual(stripNulls(got), interface{}(we)) {
			fail("effective-values", mode, fmt.Sprintf("mode %s: templates saw %s, expected %s (defaults of chart version in force: %s)", mode, js(got), js(we), js(defaults)))
		}
	}
}

// c13SubClauses: what the statement implies for a subchart and for globals, without fixing how defaults of
// different chart levels merge: (i) a value the user supplies (recorded for the revision) is what every scope it
// addresses sees — `sub.*` in the subchart, `global.*` in the parent and in the subchart; (ii) a key the user sets
// to null at this step is not seen with a value in any of those scopes.
func c13SubClauses(x *Exec, manifest string, neu, want, parentDefaults map[string]interface{}, mode string, fail func(clause, cause, detail string)) bool {
	sub := probeValuesNamed(manifest, x.Plan.Namespace, "sub-probe")
	if sub == nil {
		return true
	}
	top := probeValuesNamed(manifest, x.Plan.Namespace, "probe")
	if top == nil {
		return true
	}
	x.Res.Checks += 2
	x.Sim.Probe("c13-subchart-judged")
	type scope struct {
		name string
		user interface{}
		seen interface{}
	}
	scopes := func(tree map[string]interface{}) []scope {
		return []scope{
			{"subchart .Values", tree["sub"], map[string]interface{}(sub)},
			{"parent .Values.global", tree["global"], top["global"]},
			{"subchart .Values.global", tree["global"], sub["global"]},
		}
	}
	var walk func(path string, user, seen interface{}, nulls bool) string
	walk = func(path string, user, seen interface{}, nulls bool) string {
		um, ok := user.(map[string]interface{})
		if !ok {
			return ""
		}
		sm, _ := seen.(map[string]interface{})
		for _, k := range sortedKeys(um) {
			uv := um[k]
			sv, present := sm[k]
			switch t := uv.(type) {
			case nil:
				if nulls && present && sv != nil {
					return fmt.Sprintf("%s.%s was set to null but is seen as %s", path, k, js(sv))
				}
			case map[string]interface{}:
				if _, isMap := sv.(map[string]interface{}); present && !isMap && sv != nil {
					continue // table over scalar: resolution not specified
				}
				if msg := walk(path+"."+k, t, sv, nulls); msg != "" {
					return msg
				}
			default:
				if !nulls {
					if _, isMap := sv.(map[string]interface{}); isMap {
						continue // scalar over table: resolution not specified
					}
					if !present || !reflect.DeepEqual(normJSON(uv), normJSON(sv)) {
						return fmt.Sprintf("%s.%s was supplied as %s but is seen as %s (present=%v)", path, k, js(uv), js(sv), present)
					}
				}
			}
		}
		return ""
	}
	for _, sc := range scopes(want) {
		if msg := walk(sc.name, sc.user, sc.seen, false); msg != "" {
			fail("user-values-reach-scope", mode, fmt.Sprintf("mode %s: %s; recorded values %s", mode, msg, js(want)))
			return false
		}
	}
	// (ii) only where the new values stand alone (reset-values, or new values given without a reuse flag) and only for keys
	// whose default comes from the subchart itself: how a null meets values carried over from earlier revisions, or a
	// parent-level default of a global, differs between Helm's code paths and is not fixed by the statement.
	if mode == "reuse" || mode == "reset-then-reuse" || len(neu) == 0 {
		return true
	}
	neuNarrow := map[string]interface{}{"sub": neu["sub"]}
	if gm, ok := neu["global"].(map[string]interface{}); ok {
		pd, _ := parentDefaults["global"].(map[string]interface{})
		ng := map[string]interface{}{}
		for k, v := range gm {
			if _, has := pd[k]; !has {
				ng[k] = v
			}
		}
		neuNarrow["global"] = ng
	}
	for _, sc := range scopes(neuNarrow) {
		if msg := walk(sc.name, sc.user, sc.seen, true); msg != "" {
			x.Sim.Probe("c13-null-judged")
			fail("null-removes-key", mode, fmt.Sprintf("mode %s: %s; new values %s", mode, msg, js(neu)))
			return false
		}
	}
	return true
}

func probeValuesNamed(manifest, ns, name string) map[string]interface{} {
	for _, d := range ParseManifest(manifest, ns) {
		if d.ID.Kind == "ConfigMap" && d.ID.Name == name {
			s := str(getMap(d.M, "data")["values"])
			var m map[string]interface{}
			if json.Unmarshal([]byte(s), &m) == nil {
				return m
			}
		}
	}
	return nil
}

// c13DefaultsInForce replays the history before step so and returns, per revision, the chart defaults that are in
// force at it according to the statement: the defaults of the chart version it was made from, except that a revision
// made with reuse-values keeps those of the then deployed revision and a rollback keeps those of its target.
var c13InForceChart map[int]int // side result of c13DefaultsInForce: per revision, the index of the chart version whose defaults are in force

func c13DefaultsInForce(x *Exec, so *StepObs) (map[int]map[string]interface{}, map[int]bool) {
	idx := map[int]int{}
	c13InForceChart = idx
	inForce := map[int]map[string]interface{}{}
	tainted := map[int]bool{}
	curDep := 0
	for _, prev := range x.Steps {
		if prev == so {
			break
		}
		if prev.After == nil || len(prev.Results) != 1 {
			continue
		}
		pr := prev.Results[0]
		op := &pr.Op
		if isDryOp(op) || pr.Crashed {
			continue
		}
		created := createdRev(prev)
		if created == 0 {
			continue
		}
		// a null anywhere in what was given or recorded for a revision: what it does to the defaults is not specified
		if lr := prev.After.Rev(created); lr != nil && (hasNull(normJSON(lr.Config)) || hasNull(normJSON(op.Values))) {
			tainted[created] = true
		}
		switch op.Op {
		case "install":
			inForce[created] = x.Plan.Charts[op.Chart].Values
			idx[created] = op.Chart
		case "upgrade":
			if op.ReuseValues && !op.ResetValues {
				if d, ok := inForce[curDep]; ok {
					inForce[created] = d
					idx[created] = idx[curDep]
				}
				tainted[created] = tainted[created] || tainted[curDep]
			} else {
				inForce[created] = x.Plan.Charts[op.Chart].Values
				idx[created] = op.Chart
			}
		case "rollback":
			t := op.Revision
			if t == 0 {
				t = prev.Before.MaxRev() - 1
			}
			if d, ok := inForce[t]; ok {
				inForce[created] = d
				idx[created] = idx[t]
			}
			tainted[created] = tainted[created] || tainted[t]
		default:
			continue
		}
		// a table given where the defaults have a scalar (or the reverse): which one survives into later revisions is not specified
		if lr := prev.After.Rev(created); lr != nil {
			if d, ok := inForce[created]; ok && shapeConflict(asMap(normJSON(lr.Config)), asMap(normJSON(d))) {
				tainted[created] = true
			}
		}
		if pr.OK {
			curDep = created
		}
	}
	return inForce, tainted
}

func hasNull(v interface{}) bool {
	switch t := v.(type) {
	case nil:
		return true
	case map[string]interface{}:
		for _, x := range t {
			if hasNull(x) {
				return true
			}
		}
	case []interface{}:
		for _, x := range t {
			if hasNull(x) {
				return true
			}
		}
	}
	return false
}

// shapeConflict: some path is a table on one side and not on the other.
func shapeConflict(a, b map[string]interface{}) bool {
	for k, av := range a {
		bv, ok := b[k]
		if !ok {
			continue
		}
		am, aok := av.(map[string]interface{})
		bm, bok := bv.(map[string]interface{})
		if aok != bok {
			return true
		}
		if aok && shapeConflict(am, bm) {
			return true
		}
	}
	return false
}

func js(v interface{}) string {
	b, _ := json.Marshal(v)
	return string(b)
}

// probeValues extracts what the probe ConfigMap rendered for `.Values | toJson`.
func probeValues(manifest, ns string) map[string]interface{} {
	for _, d := range ParseManifest(manifest, ns) {
		if d.ID.Kind == "ConfigMap" && d.ID.Name == "probe" {
			s := str(getMap(d.M, "data")["values"])
			var m map[string]interface{}
			if json.Unmarshal([]byte(s), &m) == nil {
				return m
			}
		}
	}
	return nil
}

func (g *Gen) valueTree(depth int) map[string]interface{} {
	m := map[string]interface{}{}
	n := g.N(4)
	for i := 0; i < n; i++ {
		k := g.Pick("a", "b", "c", "n", "m", "list")
		switch g.Weighted(4, 2, 1, 2, 1, 3) {
		case 0:
			m[k] = g.Word()
		case 1:
			m[k] = float64(g.N(100))
		case 2:
			m[k] = g.Chance(0.5)
		case 3:
			m[k] = nil
		case 4:
			m[k] = []interface{}{g.Word(), float64(g.N(5))}
		case 5:
			if depth > 0 {
				m[k] = g.valueTree(depth - 1)
			} else {
				m[k] = g.Word()
			}
		}
	}
	return m
}

func genC13(seed, index uint64, tier string) *Plan {
	g := NewGen(seed, index, 13)
	p := &Plan{Check: "C13", Seed: seed, Index: index, Namespace: "ns1", Release: "rel", ClientTOs: 30}
	p.Backend = g.Backend()
	nv := 2 + g.N(3)
	for v := 0; v < nv; v++ {
		cs := ChartSpec{Name: "demo", Version: fmt.Sprintf("1.%d.0", v), Values: g.valueTree(2)}
		cs.Slots = []ResSlot{
			{Kind: "ConfigMap", Name: "probe", File: "probe.yaml", Marker: g.Marker(), Data: map[string]string{"values": "$$json"}},
			{Kind: "ConfigMap", Name: "other", File: "other.yaml", Marker: g.Marker(), Data: map[string]string{"k": fmt.Sprint(v)}},
		}
		p.Charts = append(p.Charts, cs)
	}
	withSub := g.Chance(0.4)
	if withSub {
		// a subchart with its own defaults (also for a global) and its own probe; sometimes only vendored under charts/
		// without a dependencies entry (its defaults then reach the parent's values by another route)
		undeclared := g.Chance(0.35)
		for v := range p.Charts {
			sc := SubchartSpec{Name: "sub", Values: map[string]interface{}{
				"s": g.Word(), "t": map[string]interface{}{"u": fmt.Sprint("sub-default-", v), "w": float64(v)},
				"global": map[string]interface{}{"gk": fmt.Sprint("sub-global-default-", v)},
			}, Undeclared: undeclared}
			sc.Slots = []ResSlot{{Kind: "ConfigMap", Name: "sub-probe", File: "subprobe.yaml", Marker: g.Marker(), Data: map[string]string{"values": "$$json"}}}
			p.Charts[v].Subcharts = append(p.Charts[v].Subcharts, sc)
			if g.Chance(0.4) {
				p.Charts[v].Values["global"] = map[string]interface{}{"pg": fmt.Sprint("parent-global-default-", v)}
			}
		}
	}
	subVals := func(m map[string]interface{}) map[string]interface{} {
		if !withSub || m == nil {
			return m
		}
		leaf := func() interface{} {
			if g.Chance(0.3) {
				return nil
			}
			return g.Word()
		}
		if g.Chance(0.5) {
			sv := map[string]interface{}{}
			if g.Chance(0.6) {
				sv["s"] = leaf()
			}
			if g.Chance(0.5) {
				sv["t"] = map[string]interface{}{"u": leaf()}
			}
			if g.Chance(0.3) {
				sv["extra"] = g.Word()
			}
			m["sub"] = sv
		}
		if g.Chance(0.5) {
			gv := map[string]interface{}{}
			if g.Chance(0.6) {
				gv["gk"] = leaf()
			}
			if g.Chance(0.4) {
				gv["pg"] = leaf()
			}
			if g.Chance(0.4) {
				gv["g2"] = g.Word()
			}
			m["global"] = gv
		}
		return m
	}
	p.Steps = append(p.Steps, Step{Op: &OpSpec{Op: "install", Chart: 0, Values: subVals(g.valueTree(2))}})
	n := 2 + g.N(6)
	for i := 0; i < n; i++ {
		if g.Chance(0.2) {
			st := Step{Op: &OpSpec{Op: "rollback", Revision: g.N(4)}}
			if g.Chance(0.3) {
				// a rollback that fails while waiting: the revision that was deployed stays the deployed one
				st.Op.Wait = true
				st.Faults = []FaultSpec{{Kind: FNotReady, Pred: &Pred{Nth: 1}}}
			}
			p.Steps = append(p.Steps, st)
			continue
		}
		op := OpSpec{Op: "upgrade", Chart: g.N(nv)}
		if g.Chance(0.8) {
			op.Values = subVals(g.valueTree(2))
		}
		switch g.N(4) {
		case 0:
			op.ResetValues = true
		case 1:
			op.ReuseValues = true
		case 2:
			op.ResetThenReuse = true
		}
		st := Step{Op: &op}
		if g.Chance(0.2) {
			// a failed upgrade in between: afterwards the last revision is not the deployed one
			st.Faults = []FaultSpec{{Kind: FReject, Code: 403, Pred: &Pred{Storage: boolp(false), Mutating: boolp(true), PathHas: "/namespaces/", Nth: 1}}}
			if g.Chance(0.4) {
				st.Op.Wait = true
				st.Faults = []FaultSpec{{Kind: FNotReady, Pred: &Pred{Nth: 1}}}
			}
		}
		p.Steps = append(p.Steps, st)
	}
	p.Variant = "chain"
	p.Policy = "uniform"
	p.Schedule = g.Schedule(16)
	return p.Clone()
}

func getMapAny(v interface{}) map[string]interface{} {
	m, _ := v.(map[string]interface{})
	return m
}
