package sim

// Delta-debugging of a failing Plan: drop steps, faults, flags, chart slots
// and schedule entries while the same violation class persists. Every
// candidate is one fresh-bubble execution.

import (
	"reflect"
	"sort"
	"strings"
	"testing"
	"time"
)

func violationClass(v Violation) string { return v.Property + "/" + v.Clause }

// Minimise returns the smallest Plan found that still produces a violation
// of the given class ("" = the class of the first violation of the input
// Plan), that violation's full signature, and the number of executions used.
func Minimise(t *testing.T, def *CheckDef, plan *Plan, class string, deadline time.Time) (*Plan, string, int) {
	runs := 0
	lastSig := ""
	exec := func(p *Plan) *RunResult {
		if def.Exec != nil {
			return def.Exec(t, p)
		}
		r, _ := Execute(t, p, def.Oracle, def.Final, false)
		return r
	}
	test := func(p *Plan) bool {
		runs++
		res := exec(p.Clone())
		for _, v := range res.Violations {
			if class == "" || violationClass(v) == class {
				lastSig = v.Signature()
				return true
			}
		}
		return false
	}
	cur := plan.Clone()
	{
		res := exec(cur.Clone())
		runs++
		if len(res.Violations) == 0 {
			return cur, "", runs
		}
		if class == "" {
			class = violationClass(res.Violations[0])
		}
		found := false
		for _, v := range res.Violations {
			if violationClass(v) == class {
				lastSig = v.Signature()
				found = true
				break
			}
		}
		if !found {
			return cur, "", runs
		}
	}
	bestSig := lastSig
	try := func(mut func(p *Plan) bool) bool {
		if time.Now().After(deadline) {
			return false
		}
		c := cur.Clone()
		if !mut(c) {
			return false
		}
		if test(c) {
			cur = c
			bestSig = lastSig
			return true
		}
		return false
	}
	for round := 0; round < 6; round++ {
		changed := false
		// drop steps, last first (later steps rarely matter)
		for i := len(cur.Steps) - 1; i >= 0; i-- {
			i := i
			if len(cur.Steps) <= 1 {
				break
			}
			if try(func(p *Plan) bool {
				if i >= len(p.Steps) {
					return false
				}
				p.Steps = append(p.Steps[:i:i], p.Steps[i+1:]...)
				return true
			}) {
				changed = true
			}
		}
		// disk slice: drop disk faults, then files the violation does not need
		if cur.Disk != nil {
			for fi := len(cur.Disk.Faults) - 1; fi >= 0; fi-- {
				fi := fi
				if try(func(p *Plan) bool {
					if fi >= len(p.Disk.Faults) {
						return false
					}
					fs := p.Disk.Faults
					p.Disk.Faults = append(fs[:fi:fi], fs[fi+1:]...)
					return true
				}) {
					changed = true
				}
			}
			var names []string
			for n := range cur.Disk.Files {
				names = append(names, n)
			}
			sort.Strings(names)
			for _, n := range names {
				n := n
				// (removing files is itself damage: only while hunting a crash or hang, never for the intact-input clause)
				if n == "Chart.yaml" || !(strings.HasSuffix(class, "/no-panic") || strings.HasSuffix(class, "/no-hang")) {
					continue
				}
				if try(func(p *Plan) bool {
					if _, ok := p.Disk.Files[n]; !ok {
						return false
					}
					delete(p.Disk.Files, n)
					delete(p.Disk.Alt, n)
					return true
				}) {
					changed = true
				}
			}
			if cur.Disk.Plugin != "" {
				if try(func(p *Plan) bool { p.Disk.Plugin = ""; return true }) {
					changed = true
				}
			}
		}
		// drop faults
		for si := range cur.Steps {
			for fi := len(cur.Steps[si].Faults) - 1; fi >= 0; fi-- {
				si, fi := si, fi
				if try(func(p *Plan) bool {
					if si >= len(p.Steps) || fi >= len(p.Steps[si].Faults) {
						return false
					}
					fs := p.Steps[si].Faults
					p.Steps[si].Faults = append(fs[:fi:fi], fs[fi+1:]...)
					return true
				}) {
					changed = true
				}
			}
		}
		// concurrent groups: drop members
		for si := range cur.Steps {
			for gi := len(cur.Steps[si].Group) - 1; gi >= 0; gi-- {
				si, gi := si, gi
				if try(func(p *Plan) bool {
					if si >= len(p.Steps) || gi >= len(p.Steps[si].Group) || len(p.Steps[si].Group) <= 1 {
						return false
					}
					gs := p.Steps[si].Group
					p.Steps[si].Group = append(gs[:gi:gi], gs[gi+1:]...)
					return true
				}) {
					changed = true
				}
			}
		}
		// schedule: all zeros, then zero the tail
		if try(func(p *Plan) bool {
			nz := false
			for i := range p.Schedule {
				if p.Schedule[i] != 0 {
					nz = true
				}
				p.Schedule[i] = 0
			}
			return nz
		}) {
			changed = true
		} else {
			for i := len(cur.Schedule) - 1; i >= 0; i-- {
				i := i
				if cur.Schedule[i] == 0 {
					continue
				}
				if try(func(p *Plan) bool { p.Schedule[i] = 0; return true }) {
					changed = true
				}
			}
		}
		// clock jumps, planted objects
		for si := range cur.Steps {
			si := si
			if cur.Steps[si].JumpS != 0 && try(func(p *Plan) bool { p.Steps[si].JumpS = 0; return true }) {
				changed = true
			}
		}
		for i := len(cur.Planted) - 1; i >= 0; i-- {
			i := i
			if try(func(p *Plan) bool {
				if i >= len(p.Planted) {
					return false
				}
				p.Planted = append(p.Planted[:i:i], p.Planted[i+1:]...)
				return true
			}) {
				changed = true
			}
		}
		// flags off, values dropped
		forEachOp := func(p *Plan, si, gi int) *OpSpec {
			if si >= len(p.Steps) {
				return nil
			}
			if gi < 0 {
				return p.Steps[si].Op
			}
			if gi >= len(p.Steps[si].Group) {
				return nil
			}
			return &p.Steps[si].Group[gi]
		}
		for si := range cur.Steps {
			idxs := []int{-1}
			for gi := range cur.Steps[si].Group {
				idxs = append(idxs, gi)
			}
			for _, gi := range idxs {
				op := forEachOp(cur, si, gi)
				if op == nil {
					continue
				}
				rv := reflect.ValueOf(op).Elem()
				for fi := 0; fi < rv.NumField(); fi++ {
					f := rv.Field(fi)
					name := rv.Type().Field(fi).Name
					if name == "Op" || name == "Chart" || name == "Release" || name == "CLI" || name == "CLIKind" {
						continue
					}
					if f.IsZero() {
						continue
					}
					si, gi, fi := si, gi, fi
					if try(func(p *Plan) bool {
						o := forEachOp(p, si, gi)
						if o == nil {
							return false
						}
						fv := reflect.ValueOf(o).Elem().Field(fi)
						if fv.IsZero() {
							return false
						}
						fv.Set(reflect.Zero(fv.Type()))
						return true
					}) {
						changed = true
					}
				}
			}
		}
		// charts: drop slots, subcharts, notes, partials, schema
		for ci := range cur.Charts {
			for sl := len(cur.Charts[ci].Slots) - 1; sl >= 0; sl-- {
				ci, sl := ci, sl
				if try(func(p *Plan) bool {
					if sl >= len(p.Charts[ci].Slots) {
						return false
					}
					s := p.Charts[ci].Slots
					p.Charts[ci].Slots = append(s[:sl:sl], s[sl+1:]...)
					return true
				}) {
					changed = true
				}
			}
			ci := ci
			if len(cur.Charts[ci].Subcharts) > 0 && try(func(p *Plan) bool { p.Charts[ci].Subcharts = nil; return true }) {
				changed = true
			}
			if cur.Charts[ci].Notes != "" && try(func(p *Plan) bool { p.Charts[ci].Notes = ""; return true }) {
				changed = true
			}
			if cur.Charts[ci].Partials && try(func(p *Plan) bool { p.Charts[ci].Partials = false; return true }) {
				changed = true
			}
			if cur.Charts[ci].Schema != "" && try(func(p *Plan) bool { p.Charts[ci].Schema = ""; return true }) {
				changed = true
			}
			if len(cur.Charts[ci].CRDs) > 0 && try(func(p *Plan) bool { p.Charts[ci].CRDs = nil; return true }) {
				changed = true
			}
			// slot decorations
			for sl := range cur.Charts[ci].Slots {
				sl := sl
				s := cur.Charts[ci].Slots[sl]
				if s.Keep != "" && try(func(p *Plan) bool { p.Charts[ci].Slots[sl].Keep = ""; return true }) {
					changed = true
				}
				if s.Cond != "" && try(func(p *Plan) bool { p.Charts[ci].Slots[sl].Cond = ""; return true }) {
					changed = true
				}
				if s.Style != "" && try(func(p *Plan) bool { p.Charts[ci].Slots[sl].Style = ""; return true }) {
					changed = true
				}
			}
		}
		if !changed || time.Now().After(deadline) {
			break
		}
	}
	return cur, bestSig, runs
}
