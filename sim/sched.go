package sim

// Seeded scheduler: every HTTP request, waiter call and (for the memory
// backend) storage-driver call of every simulated Helm process parks here.
// After the bubble is quiescent (synctest.Wait) the scheduler picks, from the
// pre-drawn schedule vector, which parked call is answered next and whether a
// fault hits it. Nothing in here draws randomness or reads a real clock.

import (
	"bytes"
	"context"
	"crypto/sha256"
	"encoding/hex"
	"errors"
	"fmt"
	"hash"
	"io"
	"net/http"
	"net/url"
	"sort"
	"strings"
	"sync"
	"sync/atomic"
	"testing/synctest"
	"time"
)

type pendKind int

const (
	pkHTTP pendKind = iota
	pkWait
	pkStore
)

type pendResult struct {
	resp    *Response
	err     error
	verdict string        // for wait/store seams: "", "timeout", "fail", "err-before", "err-after"
	sleep   time.Duration // the parked goroutine sleeps this long (simulated) before returning
}

type pend struct {
	kind     pendKind
	proc     *Proc
	verb     string
	path     string
	query    url.Values
	rawQuery string
	ctype    string
	body     []byte
	target   *ObjID
	key      string
	seqIn    uint64
	ctx      context.Context
	done     chan pendResult
	gone     bool // the caller gave up (context cancelled)
	stalled  bool
	served   bool
	waitRes  []ObjID // for pkWait
	waitTO   time.Duration
	rec      *ReqRecord
	storeKey string
	fn       func() // storage seam: the real driver call (run by the scheduler in co-release mode "sched")
	write    bool
}

// Proc is one simulated Helm process incarnation.
type Proc struct {
	ID       string
	Sim      *Sim
	Crashed  bool
	Served   int // seam calls served so far (fault positions count these)
	Reqs     []*ReqRecord
	StoreLog []StoreCall
	Direct   bool // observer process: served immediately, never scheduled, never logged
	// DirectFault lets a direct (unscheduled) process take one fault on its K-th request (C10).
	DirectFault *FaultSpec
	directN     int
	sticky      map[string]*FaultSpec
	keyCount    map[string]int
}

// StoreCall is one call through the storage seam.
type StoreCall struct {
	Op      string
	Key     string
	Rev     int
	Status  string
	Err     string
	Seq     uint64
	Applied bool
}

type Sim struct {
	mu      sync.Mutex
	Server  *APIServer
	pending []*pend
	wake    chan struct{}
	seq     atomic.Uint64
	Log     []*ReqRecord
	evHash  hash.Hash
	EvCount int
	EvLines []string // kept only when KeepEvents
	KeepEv  bool

	schedule []uint32
	schedPos int
	Choices  int // scheduling decisions with >1 candidate
	MaxPark  int
	policy   string
	prio     map[string]int // PCT priorities per proc
	pctChg   []int          // PCT change points (decision indices)

	faults      []*FaultSpec // faults of the current step
	FaultsFired map[string]int
	Probes      map[string]int
	start       time.Time
	lastProg    time.Time
	Hang        string
	stepBudget  int
	steps       int
	coRelease   string // "" | "sched" | "inner"
	waitFn      func(p *pend) pendResult
	Trace       io.Writer
	StallDur    time.Duration
	OobHook     func(o *OobSpec)  // applies an out-of-band action (set by the executor)
	OwnedFn     func(o *Obj) bool // does the object carry this release's ownership metadata?
}

func NewSim(schedule []uint32, policy string) *Sim {
	s := &Sim{
		wake:        make(chan struct{}, 1),
		evHash:      sha256.New(),
		schedule:    schedule,
		policy:      policy,
		FaultsFired: map[string]int{},
		Probes:      map[string]int{},
		stepBudget:  20000,
	}
	s.Server = NewAPIServer(time.Now)
	s.start = time.Now()
	return s
}

func (s *Sim) NewProc(id string) *Proc {
	return &Proc{ID: id, Sim: s, sticky: map[string]*FaultSpec{}, keyCount: map[string]int{}}
}

func (s *Sim) Event(format string, args ...interface{}) {
	line := fmt.Sprintf(format, args...)
	s.EvCount++
	s.evHash.Write([]byte(line))
	s.evHash.Write([]byte{'\n'})
	if s.KeepEv {
		s.EvLines = append(s.EvLines, line)
	}
	if s.Trace != nil {
		fmt.Fprintln(s.Trace, line)
	}
}

func (s *Sim) EventHash() string { return hex.EncodeToString(s.evHash.Sum(nil)) }

func (s *Sim) Probe(name string) { s.Probes[name]++ }

func (s *Sim) nextSeq() uint64 { return s.seq.Add(1) }
func (s *Sim) curSeq() uint64  { return s.seq.Load() }

func (s *Sim) poke() {
	select {
	case s.wake <- struct{}{}:
	default:
	}
}

// park registers a seam call and blocks until the scheduler answers it.
func (s *Sim) park(p *pend) pendResult {
	p.done = make(chan pendResult, 1)
	s.mu.Lock()
	s.pending = append(s.pending, p)
	s.mu.Unlock()
	s.poke()
	var r pendResult
	if p.ctx != nil {
		select {
		case r = <-p.done:
		case <-p.ctx.Done():
			s.mu.Lock()
			p.gone = true
			s.mu.Unlock()
			s.poke()
			return pendResult{err: p.ctx.Err()}
		}
	} else {
		r = <-p.done
	}
	if r.sleep > 0 {
		time.Sleep(r.sleep)
		if p.rec != nil && p.rec.Fault == FStall {
			// the call is over for its caller only now
			p.rec.SeqOut = s.nextSeq()
		}
	}
	return r
}

var errCrashed = errors.New("dial tcp 10.0.0.1:6443: connect: connection refused (simulated: process is dead)")

type simErr struct{ msg string }

func (e *simErr) Error() string { return e.msg }

// RoundTrip implements http.RoundTripper for one process.
func (pr *Proc) RoundTrip(req *http.Request) (*http.Response, error) {
	var body []byte
	if req.Body != nil {
		body, _ = io.ReadAll(req.Body)
		req.Body.Close()
	}
	s := pr.Sim
	if pr.Direct {
		pr.directN++
		if f := pr.DirectFault; f != nil && !f.fired && f.K == pr.directN {
			f.fired = true
			switch f.Kind {
			case FReject:
				r := rejectResponse(f.Code, &pend{path: req.URL.Path})
				return r.HTTP(req), nil
			case FDrop:
				return nil, &simErr{"dial tcp 10.0.0.1:6443: connect: connection refused (simulated drop)"}
			case FLostResponse:
				s.Server.Handle(req.Method, req.URL.Path, req.URL.Query(), req.Header.Get("Content-Type"), body)
				return nil, &simErr{"unexpected EOF (simulated: response lost)"}
			}
		}
		r := s.Server.Handle(req.Method, req.URL.Path, req.URL.Query(), req.Header.Get("Content-Type"), body)
		return r.HTTP(req), nil
	}
	s.mu.Lock()
	crashed := pr.Crashed
	s.mu.Unlock()
	if crashed {
		return nil, errCrashed
	}
	p := &pend{kind: pkHTTP, proc: pr, verb: req.Method, path: req.URL.Path, query: req.URL.Query(), rawQuery: req.URL.RawQuery,
		ctype: req.Header.Get("Content-Type"), body: body, ctx: req.Context()}
	p.target = TargetID(p.verb, p.path, body)
	r := s.park(p)
	if r.err != nil {
		return nil, r.err
	}
	return r.resp.HTTP(req), nil
}

func bodyHash(b []byte) string {
	if len(b) == 0 {
		return "-"
	}
	h := sha256.Sum256(b)
	return hex.EncodeToString(h[:6])
}

func (p *pend) baseKey() string {
	t := ""
	if p.target != nil {
		t = p.target.String()
	}
	return p.proc.ID + "|" + p.verb + "|" + p.path + "|" + t + "|" + p.rawQuery + "|" + bodyHash(p.body)
}

// Run drives the scheduler until done() reports that every operation of the
// current step has returned. It must be called from inside the bubble.
func (s *Sim) Run(done func() bool) {
	s.lastProg = time.Now()
	for {
		synctest.Wait()
		s.steps++
		if s.steps > s.stepBudget {
			s.Hang = "step budget exceeded"
			return
		}
		cands := s.collect()
		if len(cands) == 0 {
			if done() {
				return
			}
			if time.Since(s.lastProg) > 4*time.Hour {
				s.Hang = "no progress for 4 simulated hours"
				return
			}
			t := time.NewTimer(10 * time.Minute)
			select {
			case <-s.wake:
			case <-t.C:
			}
			t.Stop()
			continue
		}
		s.lastProg = time.Now()
		if s.coRelease != "" {
			s.serveCoRelease(cands)
			continue
		}
		idx := s.choose(cands)
		s.serve(cands[idx])
	}
}

// collect removes abandoned calls, stamps newly arrived calls with arrival
// sequence numbers in deterministic key order, and returns the eligible
// candidates sorted by key.
func (s *Sim) collect() []*pend {
	s.mu.Lock()
	defer s.mu.Unlock()
	live := s.pending[:0]
	var fresh []*pend
	for _, p := range s.pending {
		if p.served {
			continue
		}
		if p.gone {
			if p.rec != nil && p.rec.SeqOut == 0 {
				p.rec.SeqOut = s.nextSeq()
				p.rec.Note = "abandoned by client"
				s.Event("%d ABANDON %s %s %s", p.rec.SeqOut, p.proc.ID, p.verb, p.path)
			}
			continue
		}
		if p.seqIn == 0 && p.key == "" {
			fresh = append(fresh, p)
		}
		live = append(live, p)
	}
	s.pending = live
	sort.Slice(fresh, func(i, j int) bool { return fresh[i].baseKey() < fresh[j].baseKey() })
	for _, p := range fresh {
		bk := p.baseKey()
		n := p.proc.keyCount[bk]
		p.proc.keyCount[bk] = n + 1
		p.key = fmt.Sprintf("%s|%d", bk, n)
		p.seqIn = s.nextSeq()
		p.rec = &ReqRecord{SeqIn: p.seqIn, Proc: p.proc.ID, Verb: p.verb, Path: p.path, Query: p.rawQuery, Body: p.body, ID: p.target}
		s.Log = append(s.Log, p.rec)
		p.proc.Reqs = append(p.proc.Reqs, p.rec)
		s.Event("%d ARRIVE %s %s %s %s %s", p.seqIn, p.proc.ID, p.verb, p.path, p.rawQuery, bodyHash(p.body))
	}
	var cands []*pend
	for _, p := range s.pending {
		if !p.stalled {
			cands = append(cands, p)
		}
	}
	sort.Slice(cands, func(i, j int) bool { return cands[i].key < cands[j].key })
	if len(s.pending) > s.MaxPark {
		s.MaxPark = len(s.pending)
	}
	if len(s.pending) > 1 {
		s.Probes["parked>1"]++
	}
	return cands
}

func (s *Sim) nextChoice() uint32 {
	if s.schedPos < len(s.schedule) {
		c := s.schedule[s.schedPos]
		s.schedPos++
		return c
	}
	s.schedPos++
	return 0
}

func (s *Sim) choose(cands []*pend) int {
	if len(cands) == 1 {
		return 0
	}
	s.Choices++
	switch s.policy {
	case "pct":
		// highest priority process runs; priorities change at the drawn points
		for _, cp := range s.pctChg {
			if cp == s.Choices {
				// demote the process that would run now
				best := s.pctBest(cands)
				s.prio[cands[best].proc.ID] = -s.Choices
			}
		}
		return s.pctBest(cands)
	default:
		return int(s.nextChoice() % uint32(len(cands)))
	}
}

func (s *Sim) pctBest(cands []*pend) int {
	best := 0
	for i, c := range cands {
		if s.prio[c.proc.ID] > s.prio[cands[best].proc.ID] {
			best = i
		}
	}
	return best
}

// matchFault finds the fault (if any) that hits this call.
func (s *Sim) matchFault(p *pend) *FaultSpec {
	pr := p.proc
	if f := pr.sticky[p.verb+" "+p.path+" "+targetStr(p.target)]; f != nil {
		return f
	}
	for _, f := range s.faults {
		if f.fired && !f.Repeat {
			continue
		}
		if f.Proc != "" && f.Proc != pr.ID {
			continue
		}
		if !f.appliesTo(p) {
			continue
		}
		if f.K > 0 {
			if f.K != pr.Served {
				continue
			}
		} else {
			if !f.Pred.match(p) {
				continue
			}
			f.seen++
			if f.seen != f.Pred.Nth && f.Pred.Nth > 0 {
				continue
			}
		}
		f.fired = true
		return f
	}
	return nil
}

func targetStr(t *ObjID) string {
	if t == nil {
		return ""
	}
	return t.String()
}

func (s *Sim) serve(p *pend) {
	p.proc.Served++
	f := s.matchFault(p)
	if f != nil && f.Kind == FOob {
		// an out-of-band actor gets in just before this call is served; the call itself is served normally
		if s.OobHook != nil && f.Oob != nil {
			s.OobHook(f.Oob)
			s.FaultsFired[FOob]++
		}
		f = nil
	}
	if p.kind == pkHTTP && p.target != nil && (p.verb == "PATCH" || p.verb == "PUT" || p.verb == "DELETE" || p.verb == "POST") && p.rec != nil {
		switch o := s.Server.Get(*p.target); {
		case o == nil:
			p.rec.TargetState = "absent"
		case s.OwnedFn != nil && s.OwnedFn(o):
			p.rec.TargetState = "owned"
		default:
			p.rec.TargetState = "foreign"
		}
	}
	s.mu.Lock()
	p.served = true
	s.mu.Unlock()
	switch p.kind {
	case pkHTTP:
		s.serveHTTP(p, f)
	case pkWait:
		s.serveWait(p, f)
	case pkStore:
		s.serveStore(p, f)
	}
}

func (s *Sim) fire(f *FaultSpec, p *pend) {
	name := f.Kind
	s.FaultsFired[name]++
	p.rec.Fault = name
}

func (s *Sim) serveHTTP(p *pend, f *FaultSpec) {
	rec := p.rec
	finish := func(r pendResult, status int, applied bool) {
		rec.SeqOut = s.nextSeq()
		rec.Status = status
		rec.Applied = applied
		s.Event("%d SERVE %s %s %s -> %d %s", rec.SeqOut, p.proc.ID, p.verb, p.path, status, rec.Fault)
		p.done <- r
	}
	apply := func() Response {
		return s.Server.Handle(p.verb, p.path, p.query, p.ctype, p.body)
	}
	if f == nil {
		r := apply()
		finish(pendResult{resp: &r}, r.Status, true)
		return
	}
	s.fire(f, p)
	switch f.Kind {
	case FReject:
		if f.Sticky {
			p.proc.sticky[p.verb+" "+p.path+" "+targetStr(p.target)] = f
		}
		r := rejectResponse(f.Code, p)
		finish(pendResult{resp: &r}, r.Status, false)
	case FDrop:
		if f.Sticky {
			p.proc.sticky[p.verb+" "+p.path+" "+targetStr(p.target)] = f
		}
		finish(pendResult{err: &simErr{"dial tcp 10.0.0.1:6443: connect: connection refused (simulated drop)"}}, 0, false)
	case FLostResponse:
		r := apply()
		rec.Note = fmt.Sprintf("applied with status %d, response lost", r.Status)
		finish(pendResult{err: &simErr{"unexpected EOF (simulated: response lost)"}}, 0, true)
	case FStall:
		// never answered: the caller waits until (just before) its own client time-out and then
		// gives up. The error is produced here rather than by net/http's timer, whose wording
		// depends on which of its goroutines wins.
		rec.Note = "stalled until the client gave up"
		finish(pendResult{err: &simErr{"context deadline exceeded (simulated: request stalled until the client time-out)"}, sleep: s.StallDur}, 0, false)
	case FCrashBefore:
		s.mu.Lock()
		p.proc.Crashed = true
		s.mu.Unlock()
		finish(pendResult{err: errCrashed}, 0, false)
	case FCrashAfter:
		r := apply()
		rec.Note = fmt.Sprintf("applied with status %d, then the process died", r.Status)
		s.mu.Lock()
		p.proc.Crashed = true
		s.mu.Unlock()
		finish(pendResult{err: errCrashed}, 0, true)
	default:
		panic("fault kind " + f.Kind + " cannot hit an HTTP request")
	}
}

func rejectResponse(code int, p *pend) Response {
	res := ResInfo{}
	name := ""
	if pp := parsePath(p.path); pp.ok {
		res = pp.res
		name = pp.name
	}
	switch code {
	case 403:
		return statusBody(403, "Forbidden", fmt.Sprintf("%s %q is forbidden: simulated rejection", res.Resource, name), res, name)
	case 409:
		return statusBody(409, "Conflict", fmt.Sprintf("Operation cannot be fulfilled on %s %q: the object has been modified; please apply your changes to the latest version and try again", res.Resource, name), res, name)
	case 422:
		return statusBody(422, "Invalid", fmt.Sprintf("%s %q is invalid: simulated rejection", res.Resource, name), res, name)
	case 429:
		return statusBody(429, "TooManyRequests", "simulated: too many requests", res, name)
	case 503:
		return statusBody(503, "ServiceUnavailable", "simulated: service unavailable", res, name)
	default:
		return statusBody(500, "InternalError", "simulated: internal error", res, name)
	}
}

// serveWait answers a waiter-stub call.
func (s *Sim) serveWait(p *pend, f *FaultSpec) {
	rec := p.rec
	res := pendResult{}
	if f != nil {
		s.fire(f, p)
		switch f.Kind {
		case FNotReady:
			res.verdict = "timeout"
			res.sleep = p.waitTO
		case FHookFail:
			res.verdict = "fail"
		default:
			panic("fault kind " + f.Kind + " cannot hit a waiter call")
		}
	} else if p.verb == "WAITDEL" {
		for _, id := range p.waitRes {
			if s.Server.Get(id) != nil {
				res.verdict = "timeout"
				res.sleep = p.waitTO
				rec.Note = "object still present: " + id.String()
				break
			}
		}
	}
	rec.SeqOut = s.nextSeq()
	rec.Applied = true
	if res.verdict == "" {
		rec.Status = 200
	} else {
		rec.Status = 599
	}
	s.Event("%d SERVE %s %s %s -> %q", rec.SeqOut, p.proc.ID, p.verb, p.path, res.verdict)
	p.done <- res
}

// serveStore answers a storage-seam call (memory backend): the parked
// goroutine performs the real driver call itself once released.
func (s *Sim) serveStore(p *pend, f *FaultSpec) {
	rec := p.rec
	res := pendResult{}
	if f != nil {
		s.fire(f, p)
		switch f.Kind {
		case FStoreErrBefore:
			res.verdict = "err-before"
		case FStoreErrAfter:
			res.verdict = "err-after"
		default:
			panic("fault kind " + f.Kind + " cannot hit a storage call")
		}
	}
	rec.SeqOut = s.nextSeq()
	rec.Applied = res.verdict != "err-before"
	rec.Status = 200
	if res.verdict != "" {
		rec.Status = 599
	}
	s.Event("%d SERVE %s %s %s -> %q", rec.SeqOut, p.proc.ID, p.verb, p.path, res.verdict)
	p.done <- res
}

// serveCoRelease (race-detector mode): compute the answers of a set of
// candidates one after the other, then release their goroutines so that no
// happens-before edge exists between the code segments that follow. Answers
// are computed by the scheduler in deterministic order, so the run stays
// replayable. In sub-mode "inner" a storage call is executed by its own
// goroutine (exposing the driver's internals to concurrency); a set then holds
// at most one storage call, which keeps results deterministic.
func (s *Sim) serveCoRelease(cands []*pend) {
	seen := map[string]bool{}
	var set []*pend
	stores := 0
	for _, c := range cands {
		if seen[c.proc.ID] {
			continue
		}
		_ = stores
		seen[c.proc.ID] = true
		set = append(set, c)
	}
	n := 1
	if len(set) > 1 {
		s.Choices++
		n = 1 + int(s.nextChoice()%uint32(len(set)))
		r := int(s.nextChoice() % uint32(len(set)))
		set = append(set[r:], set[:r]...)
	}
	set = set[:n]
	type out struct {
		p *pend
		r pendResult
	}
	var outs []out
	for _, p := range set {
		p.proc.Served++
		s.mu.Lock()
		p.served = true
		s.mu.Unlock()
		rec := p.rec
		res := pendResult{}
		switch p.kind {
		case pkHTTP:
			r := s.Server.Handle(p.verb, p.path, p.query, p.ctype, p.body)
			rec.Status = r.Status
			res.resp = &r
		case pkStore:
			rec.Status = 200
			if s.coRelease == "sched" && p.fn != nil {
				p.fn()
				res.verdict = "done"
			}
		default:
			rec.Status = 200
			if p.verb == "WAITDEL" {
				for _, id := range p.waitRes {
					if s.Server.Get(id) != nil {
						res.verdict = "timeout"
						res.sleep = p.waitTO
						rec.Status = 599
					}
				}
			}
		}
		rec.SeqOut = s.nextSeq()
		rec.Applied = true
		outs = append(outs, out{p, res})
		s.Event("%d CO-SERVE %s %s %s -> %d", rec.SeqOut, p.proc.ID, p.verb, p.path, rec.Status)
	}
	if len(outs) > 1 {
		s.Probes["co-released>1"]++
	}
	for _, o := range outs {
		o.p.done <- o.r
	}
}

// ---- helpers used by the factory and the waiter stub ----

func newBody(b []byte) io.ReadCloser { return io.NopCloser(bytes.NewReader(b)) }

func pathHasPrefix(p, prefix string) bool { return strings.HasPrefix(p, prefix) }
