package sim

// Execution of one Plan inside one synctest bubble. The result is a pure
// function of the Plan and the code under test.

import (
	"bytes"
	"encoding/base64"
	"encoding/json"
	"fmt"
	"io"
	"os"
	"path/filepath"
	"runtime/debug"
	"sort"
	"strings"
	"testing"
	"testing/synctest"
	"time"

	"github.com/spf13/cobra"

	"helm.sh/helm/v4/pkg/action"
	chart "helm.sh/helm/v4/pkg/chart/v2"
	chartutil "helm.sh/helm/v4/pkg/chart/v2/util"
	helmcmd "helm.sh/helm/v4/pkg/cmd"
	"helm.sh/helm/v4/pkg/kube"
	release "helm.sh/helm/v4/pkg/release/v1"
	"helm.sh/helm/v4/pkg/storage"
	"helm.sh/helm/v4/pkg/storage/driver"
)

// LedgerRec is one revision as observed through the public storage API.
type LedgerRec struct {
	Rev       int
	Status    string
	Manifest  string
	ManHash   string
	Config    map[string]interface{}
	ChartName string
	ChartVer  string
	Desc      string
	Hooks     []*release.Hook
	Labels    map[string]string
	Rel       *release.Release
}

type WorldObs struct {
	Ledger      []LedgerRec // Storage.History, sorted by revision
	HistErr     string
	DeployedAll []int // revisions returned by Storage.DeployedAll
	Cluster     map[string]*Obj
	Time        time.Time
}

func (w *WorldObs) Rev(n int) *LedgerRec {
	for i := range w.Ledger {
		if w.Ledger[i].Rev == n {
			return &w.Ledger[i]
		}
	}
	return nil
}

func (w *WorldObs) MaxRev() int {
	m := 0
	for _, r := range w.Ledger {
		if r.Rev > m {
			m = r.Rev
		}
	}
	return m
}

func (w *WorldObs) Deployed() []int {
	var d []int
	for _, r := range w.Ledger {
		if r.Status == "deployed" {
			d = append(d, r.Rev)
		}
	}
	return d
}

func (w *WorldObs) Summary() string {
	var parts []string
	for _, r := range w.Ledger {
		parts = append(parts, fmt.Sprintf("v%d:%s", r.Rev, r.Status))
	}
	return strings.Join(parts, " ")
}

// OpResult is what one operation returned and did.
type OpResult struct {
	Step      int
	Proc      string
	Op        OpSpec
	Err       string
	OK        bool
	Panic     string
	Rel       *release.Release
	Rels      []*release.Release
	Info      string // uninstall response info
	Values    map[string]interface{}
	Reqs      []*ReqRecord
	StoreLog  []StoreCall
	Crashed   bool
	Faults    []string // fault kinds that hit this process
	PostRendN int
	StartSeq  uint64
	EndSeq    uint64
}

func (r *OpResult) Mutations() []*ReqRecord {
	var m []*ReqRecord
	for _, q := range r.Reqs {
		if q.Mutating() {
			m = append(m, q)
		}
	}
	return m
}

type StepObs struct {
	Index   int
	Step    *Step
	Before  *WorldObs
	After   *WorldObs
	Results []*OpResult
}

type Violation struct {
	Property string `json:"property"`
	Clause   string `json:"clause"`
	Op       string `json:"op"`
	Cause    string `json:"cause"`
	Detail   string `json:"detail"`
	Step     int    `json:"step"`
}

func (v Violation) Signature() string {
	return v.Property + "/" + v.Clause + "/" + v.Op + "/" + v.Cause
}

type RunResult struct {
	Check       string         `json:"check"`
	Seed        uint64         `json:"seed"`
	Index       uint64         `json:"index"`
	Variant     string         `json:"variant,omitempty"`
	Violations  []Violation    `json:"violations,omitempty"`
	Infra       string         `json:"infra,omitempty"`
	EventHash   string         `json:"eventHash"`
	Events      int            `json:"events"`
	SimSeconds  float64        `json:"simSeconds"`
	FaultsFired map[string]int `json:"faultsFired,omitempty"`
	Probes      map[string]int `json:"probes,omitempty"`
	MaxParked   int            `json:"maxParked"`
	Choices     int            `json:"choices"`
	Signature   string         `json:"signature"`
	NonTrivial  bool           `json:"nonTrivial"`
	Outcome     string         `json:"outcome"`
	SeamCalls   []int          `json:"seamCalls,omitempty"` // per step: seam calls served for the (first) operation
	SeamKinds   [][]string     `json:"seamKinds,omitempty"` // per step: kind of each seam call (http verb / WAIT / ...)
	Mutating    int            `json:"mutating"`
	WallMs      float64        `json:"wallMs"`
	Checks      int            `json:"checks"` // oracle predicates evaluated
}

// Exec holds the state of one execution.
type Exec struct {
	Plan    *Plan
	Sim     *Sim
	Backend *Backend
	Steps   []*StepObs
	Res     *RunResult
	procN   int
	Oracle  func(x *Exec, so *StepObs)
	Final   func(x *Exec)
	Owned   map[string]bool // identities named by any manifest or hook of any revision seen
	EverDep map[int]bool    // revisions that were ever observed as deployed
	stop    bool
	cur     *StepObs
	leaky   bool // an operation ran that legitimately leaves a blocked goroutine behind (pkg/cmd's signal waiter)
}

func (x *Exec) Violate(v Violation) {
	x.Res.Violations = append(x.Res.Violations, v)
}

// countingPostRenderer records that it ran and passes the manifest through.
type countingPostRenderer struct{ n *int }

func (c countingPostRenderer) Run(in *bytes.Buffer) (*bytes.Buffer, error) {
	*c.n++
	return in, nil
}

// Observe reads the ledger through the public storage API of a fresh,
// unscheduled observer process and snapshots the cluster.
func (x *Exec) Observe() *WorldObs {
	w := &WorldObs{Cluster: x.Sim.Server.Snapshot(), Time: time.Now()}
	var st *storage.Storage
	if x.Backend.Kind == "memory" {
		x.Backend.Memory.SetNamespace(x.Plan.Namespace)
		st = storage.Init(x.Backend.Memory)
	} else {
		p, err := x.Sim.NewProcess("observer", x.Plan.Namespace, x.Backend, 0, true)
		if err != nil {
			panic(err)
		}
		st = storage.Init(p.Seam.inner)
	}
	var h []*release.Release
	var err error
	func() {
		// reading the ledger goes through the real driver too: a panic there is Helm's, not the harness's
		defer func() {
			if r := recover(); r != nil {
				w.HistErr = fmt.Sprintf("panic: %v\n%s", r, debug.Stack())
			}
		}()
		h, err = st.History(x.Plan.Release)
	}()
	if w.HistErr == "" && err != nil && err != driver.ErrReleaseNotFound {
		w.HistErr = err.Error()
	}
	for _, r := range h {
		if r == nil || r.Info == nil {
			continue
		}
		lr := LedgerRec{Rev: r.Version, Status: r.Info.Status.String(), Manifest: r.Manifest, ManHash: bodyHash([]byte(r.Manifest)),
			Config: r.Config, Desc: r.Info.Description, Hooks: r.Hooks, Labels: r.Labels, Rel: r}
		if r.Chart != nil && r.Chart.Metadata != nil {
			lr.ChartName, lr.ChartVer = r.Chart.Metadata.Name, r.Chart.Metadata.Version
		}
		w.Ledger = append(w.Ledger, lr)
	}
	sort.SliceStable(w.Ledger, func(i, j int) bool { return w.Ledger[i].Rev < w.Ledger[j].Rev })
	var d []*release.Release
	func() {
		defer func() {
			if r := recover(); r != nil && w.HistErr == "" {
				w.HistErr = fmt.Sprintf("panic: %v\n%s", r, debug.Stack())
			}
		}()
		d, err = st.DeployedAll(x.Plan.Release)
	}()
	if err == nil {
		for _, r := range d {
			w.DeployedAll = append(w.DeployedAll, r.Version)
		}
		sort.Ints(w.DeployedAll)
	}
	for _, lr := range w.Ledger {
		if lr.Status == "deployed" {
			x.EverDep[lr.Rev] = true
		}
		for _, id := range ManifestIDs(lr.Manifest, x.Plan.Namespace) {
			x.Owned[id.String()] = true
		}
		for _, h := range lr.Hooks {
			for _, id := range ManifestIDs(h.Manifest, x.Plan.Namespace) {
				x.Owned[id.String()] = true
			}
		}
	}
	return w
}

// noteOwned adds to the owned set the identities named by the release object
// an operation returned and by the chart it was given: a revision that is
// created and purged within one operation (failed atomic install) is never
// visible in an observed ledger.
func (x *Exec) noteOwned(results []*OpResult) {
	ns := x.Plan.Namespace
	for _, r := range results {
		if r.Rel != nil {
			for _, id := range ManifestIDs(r.Rel.Manifest, ns) {
				x.Owned[id.String()] = true
			}
			for _, h := range r.Rel.Hooks {
				for _, id := range ManifestIDs(h.Manifest, ns) {
					x.Owned[id.String()] = true
				}
			}
		}
		if r.Op.Op == "install" || r.Op.Op == "upgrade" {
			m, h := ChartIDs(&x.Plan.Charts[r.Op.Chart], r.Op.Values, ns)
			for _, id := range append(m, h...) {
				x.Owned[id.String()] = true
			}
		}
	}
}

func (x *Exec) newProcID(step, i int) string {
	return fmt.Sprintf("p%d.%d", step, i)
}

// runOp executes one operation on its process and fills the result.
func (x *Exec) runOp(p *Process, op *OpSpec, res *OpResult) {
	defer func() {
		if r := recover(); r != nil {
			res.Panic = fmt.Sprintf("%v\n%s", r, debug.Stack())
			res.Err = "panic: " + fmt.Sprint(r)
		}
	}()
	cfg := p.Cfg
	name := op.Release
	if name == "" {
		name = x.Plan.Release
	}
	timeout := time.Duration(op.TimeoutS) * time.Second
	if timeout == 0 {
		timeout = 300 * time.Second
	}
	ws := kube.HookOnlyStrategy
	if op.Wait {
		ws = kube.StatusWatcherStrategy
	}
	var pr countingPostRenderer
	pr.n = &res.PostRendN
	var err error
	switch op.Op {
	case "install":
		in := action.NewInstall(cfg)
		in.ReleaseName = name
		in.Namespace = x.Plan.Namespace
		in.Atomic = op.Atomic
		in.Replace = op.Replace
		in.DisableHooks = op.NoHooks
		in.TakeOwnership = op.TakeOwnership
		in.CreateNamespace = op.CreateNamespace
		in.WaitForJobs = op.WaitForJobs
		in.DryRun = op.DryRun
		in.DryRunOption = op.DryRunOption
		in.ClientOnly = op.ClientOnly
		in.SkipCRDs = op.SkipCRDs
		in.IncludeCRDs = op.IncludeCRDs
		in.SkipSchemaValidation = op.SkipSchema
		in.DisableOpenAPIValidation = op.NoOpenAPI
		in.Labels = op.Labels
		in.Force = op.Force
		in.SubNotes = op.SubNotes
		in.Timeout = timeout
		in.WaitStrategy = ws
		in.Description = op.Description
		in.IsUpgrade = op.IsUpgrade
		if op.PostRender {
			in.PostRenderer = pr
		}
		res.Rel, err = in.Run(BuildChart(&x.Plan.Charts[op.Chart]), deepCopyMap(op.Values))
	case "upgrade":
		up := action.NewUpgrade(cfg)
		up.Namespace = x.Plan.Namespace
		up.Atomic = op.Atomic
		up.DisableHooks = op.NoHooks
		up.TakeOwnership = op.TakeOwnership
		up.WaitForJobs = op.WaitForJobs
		up.DryRun = op.DryRun
		up.DryRunOption = op.DryRunOption
		up.SkipSchemaValidation = op.SkipSchema
		up.DisableOpenAPIValidation = op.NoOpenAPI
		up.SkipCRDs = op.SkipCRDs
		up.Labels = op.Labels
		up.CleanupOnFail = op.CleanupOnFail
		up.MaxHistory = op.MaxHistory
		up.ResetValues = op.ResetValues
		up.ReuseValues = op.ReuseValues
		up.ResetThenReuseValues = op.ResetThenReuse
		up.Force = op.Force
		up.SubNotes = op.SubNotes
		up.Timeout = timeout
		up.WaitStrategy = ws
		up.Description = op.Description
		if op.PostRender {
			up.PostRenderer = pr
		}
		res.Rel, err = up.Run(name, BuildChart(&x.Plan.Charts[op.Chart]), deepCopyMap(op.Values))
	case "cli":
		// the command line layer itself: flag parsing and the wiring of pkg/cmd on top of this process's Configuration
		x.leaky = true
		dir, derr := os.MkdirTemp("", "verif-cli-")
		if derr != nil {
			err = derr
			break
		}
		defer os.RemoveAll(dir)
		chartDir := filepath.Join(dir, "demo")
		if derr := chartutil.SaveDir(withRawValues(BuildChart(&x.Plan.Charts[op.Chart])), dir); derr != nil {
			err = derr
			break
		}
		valsFile := filepath.Join(dir, "values.json")
		vb, _ := json.Marshal(op.Values)
		if op.Values == nil {
			vb = []byte("{}")
		}
		os.WriteFile(valsFile, vb, 0o644)
		args := make([]string, len(op.CLI))
		for i, a := range op.CLI {
			a = strings.ReplaceAll(a, "@CHART@", chartDir)
			a = strings.ReplaceAll(a, "@VALUES@", valsFile)
			args[i] = a
		}
		var root *cobra.Command
		root, err = helmcmd.VerifNewRootCmd(cfg, io.Discard, args)
		if err == nil {
			root.SetArgs(args)
			root.SetOut(io.Discard)
			root.SetErr(io.Discard)
			err = root.Execute()
		}
	case "lint":
		// helm lint on the chart written to disk, with the operation's values
		dir, derr := os.MkdirTemp("", "verif-lint-")
		if derr != nil {
			err = derr
			break
		}
		defer os.RemoveAll(dir)
		if derr := chartutil.SaveDir(withRawValues(BuildChart(&x.Plan.Charts[op.Chart])), dir); derr != nil {
			err = derr
			break
		}
		li := action.NewLint()
		li.Namespace = x.Plan.Namespace
		li.SkipSchemaValidation = op.SkipSchema
		lres := li.Run([]string{filepath.Join(dir, x.Plan.Charts[op.Chart].Name)}, deepCopyMap(op.Values))
		if len(lres.Errors) > 0 {
			var msgs []string
			for _, e := range lres.Errors {
				msgs = append(msgs, e.Error())
			}
			err = fmt.Errorf("lint failed: %s", strings.Join(msgs, "; "))
		}
	case "rollback":
		rb := action.NewRollback(cfg)
		rb.Version = op.Revision
		rb.DisableHooks = op.NoHooks
		rb.DryRun = op.DryRun
		rb.CleanupOnFail = op.CleanupOnFail
		rb.MaxHistory = op.MaxHistory
		rb.Force = op.Force
		rb.WaitForJobs = op.WaitForJobs
		rb.Timeout = timeout
		rb.WaitStrategy = ws
		err = rb.Run(name)
	case "uninstall":
		un := action.NewUninstall(cfg)
		un.DisableHooks = op.NoHooks
		un.DryRun = op.DryRun
		un.KeepHistory = op.KeepHistory
		un.Timeout = timeout
		un.WaitStrategy = ws
		un.Description = op.Description
		var resp *release.UninstallReleaseResponse
		resp, err = un.Run(name)
		if resp != nil {
			res.Rel = resp.Release
			res.Info = resp.Info
		}
	case "history":
		res.Rels, err = action.NewHistory(cfg).Run(name)
	case "list":
		l := action.NewList(cfg)
		l.All = true
		l.StateMask = action.ListAll
		res.Rels, err = l.Run()
	case "get":
		g := action.NewGet(cfg)
		g.Version = op.Revision
		res.Rel, err = g.Run(name)
	case "status":
		s := action.NewStatus(cfg)
		s.Version = op.Revision
		res.Rel, err = s.Run(name)
	case "getvalues":
		g := action.NewGetValues(cfg)
		g.Version = op.Revision
		res.Values, err = g.Run(name)
	default:
		panic("unknown op " + op.Op)
	}
	if err != nil {
		res.Err = err.Error()
	} else {
		res.OK = true
	}
}

// runStepOps runs the operations of one step (one, or a concurrent group)
// under the scheduler.
func (x *Exec) runStepOps(si int, ops []OpSpec, faults []FaultSpec) []*OpResult {
	s := x.Sim
	s.faults = nil
	for i := range faults {
		f := faults[i] // copy: runtime state must not leak into the Plan
		s.faults = append(s.faults, &f)
	}
	results := make([]*OpResult, len(ops))
	finished := make([]bool, len(ops))
	var shared *Process
	for i := range ops {
		id := x.newProcID(si, i)
		var p *Process
		var err error
		if x.Plan.ShareCfg && shared != nil {
			// SDK style: several goroutines share one Configuration? Not supported by Helm; we share only the driver.
			p = shared
		}
		p, err = s.NewProcess(id, x.Plan.Namespace, x.Backend, time.Duration(x.Plan.ClientTOs)*time.Second, false)
		if err != nil {
			panic(err)
		}
		res := &OpResult{Step: si, Proc: id, Op: ops[i], StartSeq: s.curSeq()}
		results[i] = res
		op := &ops[i]
		idx := i
		go func() {
			x.runOp(p, op, res)
			s.mu.Lock()
			finished[idx] = true
			res.Reqs = p.Proc.Reqs
			res.StoreLog = p.Proc.StoreLog
			res.Crashed = p.Proc.Crashed
			res.EndSeq = s.curSeq()
			s.mu.Unlock()
			s.poke()
		}()
	}
	s.Run(func() bool {
		s.mu.Lock()
		defer s.mu.Unlock()
		for _, f := range finished {
			if !f {
				return false
			}
		}
		return true
	})
	for _, r := range results {
		seen := map[string]bool{}
		for _, q := range r.Reqs {
			if q.Fault != "" && !seen[q.Fault] {
				seen[q.Fault] = true
				r.Faults = append(r.Faults, q.Fault)
			}
		}
		// net/http words a client time-out in two ways depending on which of its own goroutines wins; same event
		errText := strings.ReplaceAll(r.Err, " (Client.Timeout exceeded while awaiting headers)", "")
		s.Event("RESULT %s %s ok=%v crashed=%v err=%q", r.Proc, r.Op.Op, r.OK, r.Crashed, trunc(errText, 200))
	}
	return results
}

func trunc(s string, n int) string {
	if len(s) > n {
		return s[:n]
	}
	return s
}

func (x *Exec) applyOob(o *OobSpec) {
	srv := x.Sim.Server
	res, ok := resByKind(o.Kind)
	if !ok {
		panic("oob: unknown kind " + o.Kind)
	}
	ns := o.NS
	if ns == "" && res.Namespaced {
		ns = x.Plan.Namespace
	}
	id := ObjID{Group: res.Group, Kind: res.Kind, Namespace: ns, Name: o.Name}
	switch o.Action {
	case "create":
		m := deepCopyMap(o.Obj)
		if m == nil {
			m = map[string]interface{}{}
		}
		md := getMap(m, "metadata")
		md["name"] = o.Name
		if res.Namespaced {
			md["namespace"] = ns
		}
		m["metadata"] = md
		srv.Put(res, m)
		x.Sim.Event("OOB create %s", id)
	case "delete":
		srv.Remove(id)
		x.Sim.Event("OOB delete %s", id)
	case "edit":
		old := srv.Get(id)
		if old == nil {
			x.Sim.Event("OOB edit %s (absent)", id)
			return
		}
		m := deepCopyMap(old.M)
		setPath(m, strings.Split(o.Field, "|"), o.Value)
		srv.Put(res, m)
		x.Sim.Event("OOB edit %s %s", id, o.Field)
	case "stuck":
		srv.stuck[id.String()] = true
		x.Sim.Event("OOB stuck %s", id)
	case "unstick":
		delete(srv.stuck, id.String())
		if o := srv.Get(id); o != nil && getMap(o.M, "metadata")["deletionTimestamp"] != nil {
			srv.Remove(id)
		}
		x.Sim.Event("OOB unstick %s", id)
	default:
		panic("oob action " + o.Action)
	}
}

// setPath sets a value at a path of map keys; a nil value deletes the key.
func setPath(m map[string]interface{}, path []string, v interface{}) {
	for i, k := range path {
		if i == len(path)-1 {
			if v == nil {
				delete(m, k)
			} else {
				m[k] = v
			}
			return
		}
		next, ok := m[k].(map[string]interface{})
		if !ok {
			next = map[string]interface{}{}
			m[k] = next
		}
		m = next
	}
}

// applyCorrupt damages the stored body of one release record in place.
func (x *Exec) applyCorrupt(c *CorruptSpec, w *WorldObs) {
	if x.Backend.Kind == "memory" {
		return
	}
	rev := c.Rev
	if rev == 0 {
		rev = w.MaxRev()
	}
	kind, field := "Secret", "data"
	if x.Backend.Kind == "configmaps" {
		kind = "ConfigMap"
	}
	id := ObjID{Kind: kind, Namespace: x.Plan.Namespace, Name: fmt.Sprintf("sh.helm.release.v1.%s.v%d", x.Plan.Release, rev)}
	old := x.Sim.Server.Get(id)
	if old == nil {
		x.Sim.Event("CORRUPT %s (absent)", id)
		return
	}
	m := deepCopyMap(old.M)
	data := getMap(m, field)
	body := str(data["release"])
	if kind == "Secret" {
		// Secret data is base64 of the record body on the wire
		if b, err := base64.StdEncoding.DecodeString(body); err == nil {
			body = string(b)
		}
	}
	nb := corruptBody(body, c.Mode, c.Pos)
	if kind == "Secret" {
		data["release"] = base64.StdEncoding.EncodeToString([]byte(nb))
	} else {
		data["release"] = nb
	}
	if c.Mode == "emptydata" {
		delete(data, "release")
	}
	m[field] = data
	res, _ := resByKind(kind)
	x.Sim.Server.Put(res, m)
	x.Sim.Event("CORRUPT %s %s", id, c.Mode)
}

func corruptBody(body, mode string, pos int) string {
	if len(body) == 0 {
		return body
	}
	b := []byte(body)
	p := pos % len(b)
	switch mode {
	case "bitflip":
		b[p] ^= 1 << (uint(pos) % 7)
		return string(b)
	case "truncate":
		return string(b[:p])
	case "zero":
		for i := p; i < len(b) && i < p+16; i++ {
			b[i] = 0
		}
		return string(b)
	case "garbage":
		return "!!not base64!! \x00\x01 {" + string(b[:p%16])
	case "b64nogzip":
		return base64.StdEncoding.EncodeToString([]byte("this is not gzip and not json"))
	case "jsonnull":
		return base64.StdEncoding.EncodeToString([]byte("null"))
	case "jsonarray":
		return base64.StdEncoding.EncodeToString([]byte("[1,2,3]"))
	case "jsonnoinfo":
		return base64.StdEncoding.EncodeToString([]byte(`{"name":"x","version":1}`))
	case "emptydata":
		return ""
	case "gz-header", "gz-truncate", "gz-bitflip", "gz-crc":
		// damage the inflated-side bytes and keep the base64 wrapping intact
		raw, err := base64.StdEncoding.DecodeString(body)
		if err != nil || len(raw) < 12 {
			return body
		}
		switch mode {
		case "gz-header":
			raw = raw[:4+pos%7] // magic intact, header cut short
		case "gz-truncate":
			raw = raw[:10+pos%(len(raw)-10)]
		case "gz-bitflip":
			raw[pos%len(raw)] ^= 1 << (uint(pos) % 8)
		case "gz-crc":
			raw[len(raw)-5] ^= 0xff
		}
		return base64.StdEncoding.EncodeToString(raw)
	}
	return string(b)
}

// Execute runs the Plan. oracle is called after every step, final once at
// the end.
func Execute(t *testing.T, plan *Plan, oracle func(x *Exec, so *StepObs), final func(x *Exec), keepEvents bool) (res *RunResult, ex *Exec) {
	res = &RunResult{Check: plan.Check, Seed: plan.Seed, Index: plan.Index, Variant: plan.Variant}
	hung := false
	t0 := time.Now()
	defer func() {
		res.WallMs = float64(time.Since(t0).Microseconds()) / 1000
	}()
	defer func() {
		if r := recover(); r != nil {
			msg := fmt.Sprint(r)
			if strings.Contains(msg, "deadlock") && (res.Infra != "" || hung) {
				return // blocked goroutines left behind by a hang we already reported
			}
			if strings.Contains(msg, "deadlock") && ex != nil && ex.leaky {
				return // helm's install/upgrade commands leave a goroutine waiting for SIGTERM behind: not a hang
			}
			if res.Infra == "" {
				res.Infra = "panic in harness: " + msg + "\n" + string(debug.Stack())
			}
		}
	}()
	synctest.Test(t, func(t *testing.T) {
		x := &Exec{Plan: plan, Res: res, Oracle: oracle, Final: final, Owned: map[string]bool{}, EverDep: map[int]bool{}}
		ex = x
		x.Sim = NewSim(plan.Schedule, plan.Policy)
		x.Sim.KeepEv = keepEvents
		x.Sim.coRelease = plan.CoRelease
		x.Sim.OobHook = x.applyOob
		x.Sim.OwnedFn = func(o *Obj) bool { return ownedBy(o, plan.Release, plan.Namespace) }
		x.Sim.StallDur = time.Duration(plan.ClientTOs)*time.Second - time.Second
		if x.Sim.StallDur <= 0 {
			x.Sim.StallDur = 29 * time.Second
		}
		if plan.Policy == "pct" {
			x.Sim.prio = map[string]int{}
			x.Sim.pctChg = plan.PCT
		}
		x.Backend = &Backend{Kind: plan.Backend}
		if plan.Backend == "memory" {
			x.Backend.Memory = driver.NewMemory()
		}
		srv := x.Sim.Server
		nsRes, _ := resByKind("Namespace")
		srv.Put(nsRes, map[string]interface{}{"metadata": map[string]interface{}{"name": "default"}})
		srv.Put(nsRes, map[string]interface{}{"metadata": map[string]interface{}{"name": "other"}})
		if !plan.NSMissing {
			srv.Put(nsRes, map[string]interface{}{"metadata": map[string]interface{}{"name": plan.Namespace}})
		}
		for i := range plan.Planted {
			x.applyOob(&plan.Planted[i])
		}
		start := time.Now()
		for si := range plan.Steps {
			st := &plan.Steps[si]
			if st.JumpS > 0 {
				time.Sleep(time.Duration(st.JumpS) * time.Second)
				x.Sim.Event("JUMP %ds", st.JumpS)
			}
			so := &StepObs{Index: si, Step: st}
			so.Before = x.Observe()
			switch {
			case st.Oob != nil:
				x.applyOob(st.Oob)
			case st.Corrupt != nil:
				x.applyCorrupt(st.Corrupt, so.Before)
			case st.Op != nil:
				if plan.Policy == "pct" {
					x.Sim.prio[x.newProcID(si, 0)] = pctPrio(plan, 0)
				}
				so.Results = x.runStepOps(si, []OpSpec{*st.Op}, st.Faults)
			case len(st.Group) > 0:
				if plan.Policy == "pct" {
					for i := range st.Group {
						x.Sim.prio[x.newProcID(si, i)] = pctPrio(plan, i)
					}
				}
				so.Results = x.runStepOps(si, st.Group, st.Faults)
			}
			if x.Sim.Hang != "" && plan.Check == "C20" {
				// C20 owns the "no hang" clause
				x.Violate(Violation{"C20", "no-hang", "history", x.c20Damage(si), "the operation did not finish: " + x.Sim.Hang, si})
				hung = true
				x.Sim.Event("HANG %s", x.Sim.Hang)
				x.Steps = append(x.Steps, so)
				break
			}
			if x.Sim.Hang != "" {
				res.Infra = "hang: " + x.Sim.Hang
				x.Sim.Event("HANG %s", x.Sim.Hang)
				x.Steps = append(x.Steps, so)
				break
			}
			x.noteOwned(so.Results)
			so.After = x.Observe()
			if strings.HasPrefix(so.After.HistErr, "panic:") && plan.Check != "C20" {
				res.Infra = "reading the history panicked: " + trunc(so.After.HistErr, 1500)
				x.Steps = append(x.Steps, so)
				break
			}
			x.Sim.Event("STATE %s | objs=%d", so.After.Summary(), len(so.After.Cluster))
			x.Steps = append(x.Steps, so)
			if oracle != nil {
				oracle(x, so)
			}
			if x.stop {
				break
			}
		}
		if final != nil && res.Infra == "" && !hung {
			final(x)
		}
		res.SimSeconds = time.Since(start).Seconds()
		res.EventHash = x.Sim.EventHash()
		res.Events = x.Sim.EvCount
		res.FaultsFired = x.Sim.FaultsFired
		res.Probes = x.Sim.Probes
		res.MaxParked = x.Sim.MaxPark
		res.Choices = x.Sim.Choices
		for _, so := range x.Steps {
			n := 0
			var kinds []string
			if len(so.Results) > 0 {
				for _, q := range so.Results[0].Reqs {
					if q.SeqOut != 0 && q.Note != "abandoned by client" {
						n++
						kinds = append(kinds, q.Verb+" "+q.Path)
					}
				}
			}
			res.SeamCalls = append(res.SeamCalls, n)
			res.SeamKinds = append(res.SeamKinds, kinds)
			for _, r := range so.Results {
				for _, q := range r.Reqs {
					if q.Mutating() && q.Applied {
						res.Mutating++
					}
				}
			}
		}
		res.Outcome, res.Signature, res.NonTrivial = x.describe()
	})
	return res, ex
}

func pctPrio(plan *Plan, i int) int {
	if i < len(plan.PCTPrio) {
		return plan.PCTPrio[i]
	}
	return 100 - i
}

// describe builds the human-readable outcome line and the run signature used
// to count distinct non-trivial runs.
func (x *Exec) describe() (outcome, sig string, nontrivial bool) {
	var parts, sparts []string
	faults := 0
	for _, so := range x.Steps {
		switch {
		case so.Step.Oob != nil:
			parts = append(parts, "oob:"+so.Step.Oob.Action+":"+so.Step.Oob.Kind+"/"+so.Step.Oob.Name)
			sparts = append(sparts, "oob:"+so.Step.Oob.Action+":"+so.Step.Oob.Kind)
		case so.Step.Corrupt != nil:
			parts = append(parts, "corrupt:"+so.Step.Corrupt.Mode)
			sparts = append(sparts, "corrupt:"+so.Step.Corrupt.Mode)
		}
		for _, r := range so.Results {
			o := r.Op.Op + opFlags(&r.Op)
			st := "ok"
			if !r.OK {
				st = "err"
			}
			if r.Crashed {
				st = "crashed"
			}
			if r.Panic != "" {
				st = "panic"
			}
			fl := strings.Join(r.Faults, "+")
			faults += len(r.Faults)
			parts = append(parts, fmt.Sprintf("%s=%s[%s]", o, st, fl))
			sparts = append(sparts, fmt.Sprintf("%s=%s[%s]c%d", o, st, fl, r.Op.Chart))
		}
		if so.After != nil {
			parts = append(parts, "{"+so.After.Summary()+"}")
			sparts = append(sparts, "{"+so.After.Summary()+"}")
		}
	}
	outcome = strings.Join(parts, " ")
	// schedule prefix actually consumed
	n := x.Sim.schedPos
	if n > len(x.Plan.Schedule) {
		n = len(x.Plan.Schedule)
	}
	schedPart := ""
	if x.Sim.Choices > 0 {
		schedPart = fmt.Sprint(x.Plan.Schedule[:n])
	}
	sig = bodyHash([]byte(x.Plan.Backend + "|" + strings.Join(sparts, " ") + "|" + schedPart + "|" + x.chartSig()))
	nontrivial = x.Res.Mutating > 0 && (len(x.Steps) >= 2 || faults > 0 || x.Sim.Choices > 0)
	return
}

func (x *Exec) chartSig() string {
	var p []string
	for _, c := range x.Plan.Charts {
		p = append(p, fmt.Sprintf("%d/%d", len(c.Slots), len(c.Subcharts)))
	}
	return strings.Join(p, ",")
}

func opFlags(o *OpSpec) string {
	var f []string
	add := func(b bool, s string) {
		if b {
			f = append(f, s)
		}
	}
	add(o.Atomic, "atomic")
	add(o.Replace, "replace")
	add(o.NoHooks, "nohooks")
	add(o.TakeOwnership, "own")
	add(o.CreateNamespace, "createns")
	add(o.DryRun, "dry")
	add(o.DryRunOption != "", "dry="+o.DryRunOption)
	add(o.ClientOnly, "clientonly")
	add(o.CleanupOnFail, "cleanup")
	add(o.MaxHistory > 0, fmt.Sprintf("max%d", o.MaxHistory))
	add(o.ResetValues, "reset")
	add(o.ReuseValues, "reuse")
	add(o.ResetThenReuse, "rtr")
	add(o.Force, "force")
	add(o.KeepHistory, "keephist")
	add(o.Wait, "wait")
	add(o.SkipSchema, "skipschema")
	add(o.NoOpenAPI, "noopenapi")
	add(o.Op == "rollback", fmt.Sprintf("to%d", o.Revision))
	if len(f) == 0 {
		return ""
	}
	return "(" + strings.Join(f, ",") + ")"
}

// withRawValues gives every chart of the tree a raw values.yaml holding its in-memory defaults: SaveDir writes the
// values file from the raw files only.
func withRawValues(c *chart.Chart) *chart.Chart {
	has := false
	for _, f := range c.Raw {
		if f.Name == chartutil.ValuesfileName {
			has = true
		}
	}
	if !has && len(c.Values) > 0 {
		if b, err := json.Marshal(c.Values); err == nil {
			c.Raw = append(c.Raw, &chart.File{Name: chartutil.ValuesfileName, Data: b})
		}
	}
	for _, d := range c.Dependencies() {
		withRawValues(d)
	}
	return c
}
