package sim

// C14 — values that violate a chart's schema are never rendered or deployed.
//
// Schemas come from a small constructed family for which the validity of a
// value tree is known by construction (the generator decides which rule to
// break), so the oracle never evaluates JSON Schema itself.

import (
	"fmt"
	"strings"
)

const c14RootSchema = `{
  "$schema": "http://json-schema.org/draft-07/schema#",
  "type": "object",
  "required": ["name"],
  "properties": {
    "name": {"type": "string"},
    "count": {"type": "integer", "minimum": 1, "maximum": 10},
    "mode": {"enum": ["x", "y"]},
    "nested": {"type": "object", "additionalProperties": false, "properties": {"flag": {"type": "boolean"}}}
  }
}`

const c14SubSchema = `{
  "type": "object",
  "required": ["s"],
  "definitions": {"port": {"type": "integer", "minimum": 1}},
  "properties": {"s": {"type": "string"}, "size": {"type": "integer", "maximum": 5},
                 "port": {"$ref": "#/definitions/port", "maximum": 65535},
                 "global": {"type": "object", "properties": {"tier": {"enum": ["dev", "prod"]}}}}
}`

// c14Expect is stored in the OpSpec description so that the oracle knows what the generator intended.
// Format: "c14:<violates root|sub|none>:<sub enabled true|false>"

func oracleC14(x *Exec, so *StepObs) {
	if so.After == nil || len(so.Results) != 1 {
		return
	}
	const P = "C14"
	r := so.Results[0]
	op := &r.Op
	if !strings.HasPrefix(op.Description, "c14:") || r.Crashed {
		return
	}
	parts := strings.Split(op.Description, ":")
	violates, subEnabled, rule := parts[1], parts[2] == "true", parts[3]
	if violates == "leaf" {
		violates = "sub" // judged like a subchart violation; the chart named is the leaf
	}
	cs := &x.Plan.Charts[op.Chart]
	fail := func(clause, cause, detail string) {
		x.Violate(Violation{P, clause, op.Op, cause, detail, so.Index})
		x.stop = true
	}
	// did an earlier, unrelated check stop the operation?
	early := !r.OK && (strings.Contains(r.Err, "cannot reuse a name") || strings.Contains(r.Err, "has no deployed releases") || strings.Contains(r.Err, "in progress"))
	if early {
		return
	}
	x.Res.Checks += 2
	mustReject := !op.SkipSchema && (violates == "root" || (violates == "sub" && subEnabled) || violates == "sib")
	mode := "real"
	if isDryOp(op) {
		mode = "dry"
	}
	cause := fmt.Sprintf("%s:%s:%s", violates, rule, mode)
	if mustReject {
		x.Sim.Probe("c14-must-reject:" + violates)
		if r.OK {
			fail("gate-rejects", cause, fmt.Sprintf("values violate the %s schema (rule %s) but %s succeeded", violates, rule, op.Op))
			return
		}
		name := cs.Name
		if violates == "sib" {
			name = "subtwo"
		}
		if violates == "sub" {
			name = cs.Subcharts[0].Name
			if cs.Subcharts[0].Alias != "" {
				name = cs.Subcharts[0].Alias
			}
			if parts[1] == "leaf" {
				name = cs.Subcharts[0].Sub[0].Name
			}
		}
		if !strings.Contains(r.Err, name+":") || !strings.Contains(r.Err, "schema") {
			fail("error-names-chart", cause, fmt.Sprintf("error does not name chart %q: %s", name, trunc(r.Err, 300)))
			return
		}
		for _, q := range r.Reqs {
			if q.Mutating() {
				fail("nothing-sent", cause, fmt.Sprintf("%s %s was sent although the values violate the schema", q.Verb, q.Path))
				return
			}
		}
		for _, c := range r.StoreLog {
			if c.Op == "create" || c.Op == "update" || c.Op == "delete" {
				fail("nothing-stored", cause, fmt.Sprintf("storage %s %s although the values violate the schema", c.Op, c.Key))
				return
			}
		}
		if so.Before.Summary() != so.After.Summary() {
			fail("nothing-stored", cause, fmt.Sprintf("history changed: %s -> %s", so.Before.Summary(), so.After.Summary()))
		}
		return
	}
	// schema satisfied, disabled, or skipped: the schema step must not reject
	x.Sim.Probe("c14-must-pass:" + violates)
	if !r.OK && strings.Contains(r.Err, "values don't meet the specifications of the schema") {
		fail("no-spurious-rejection", cause+fmt.Sprintf(":skip=%v:subEnabled=%v", op.SkipSchema, subEnabled), fmt.Sprintf("schema step rejected although it should not: %s", trunc(r.Err, 300)))
	}
}

func genC14(seed, index uint64, tier string) *Plan {
	g := NewGen(seed, index, 14)
	p := &Plan{Check: "C14", Seed: seed, Index: index, Namespace: "ns1", Release: "rel", ClientTOs: 30}
	p.Backend = g.Backend()
	withSub := g.Chance(0.6)
	withSib := withSub && g.Chance(0.5)
	alias := ""
	if withSub && g.Chance(0.3) {
		alias = "aliased"
	}
	subKey := "subone"
	if alias != "" {
		subKey = alias
	}
	mk := func(ver string, rootSchema bool) ChartSpec {
		cs := ChartSpec{Name: "demo", Version: ver, Values: map[string]interface{}{"name": "ok", "count": float64(3), "mode": "x", "subon": true}}
		if rootSchema {
			cs.Schema = c14RootSchema
		}
		cs.Slots = []ResSlot{{Kind: "ConfigMap", Name: "cm1", File: "a.yaml", Marker: g.Marker(), Data: map[string]string{"k": "$name"}}}
		if withSub {
			sc := SubchartSpec{Name: "subone", Alias: alias, Condition: "subon", Values: map[string]interface{}{"s": "fine", "size": float64(1)}, Schema: c14SubSchema}
			sc.Slots = []ResSlot{{Kind: "ConfigMap", Name: "sub-cm1", File: "s.yaml", Marker: g.Marker(), Data: map[string]string{"s": "$s"}}}
			cs.Subcharts = []SubchartSpec{sc}
			if withSib {
				// a sibling with a schema of its own (never disabled): every dependency is checked, not only the first
				sib := SubchartSpec{Name: "subtwo", Values: map[string]interface{}{"s": "fine", "size": float64(2)}, Schema: c14SubSchema}
				sib.Slots = []ResSlot{{Kind: "ConfigMap", Name: "sub-cm2", File: "s.yaml", Marker: g.Marker(), Data: map[string]string{"s": "$s"}}}
				cs.Subcharts = append(cs.Subcharts, sib)
			}
		}
		return cs
	}
	// version 0 has no root schema (so that any values can be installed first), version 1 has it
	p.Charts = []ChartSpec{mk("1.0.0", false), mk("1.1.0", true)}
	if withSub {
		// version 0 must accept anything for the subcharts too
		for i := range p.Charts[0].Subcharts {
			p.Charts[0].Subcharts[i].Schema = ""
		}
	}
	draw := func() (vals map[string]interface{}, violates, rule string, subEnabled bool) {
		vals = map[string]interface{}{}
		subEnabled = withSub
		violates, rule = "none", "none"
		if withSub && g.Chance(0.3) {
			vals["subon"] = false
			subEnabled = false
		}
		switch g.Weighted(4, 5, 4, 3) {
		case 3:
			if !withSib {
				break
			}
			violates = "sib"
			switch g.N(3) {
			case 0:
				vals["subtwo"] = map[string]interface{}{"s": float64(5)}
				rule = "type"
			case 1:
				vals["subtwo"] = map[string]interface{}{"size": float64(9)}
				rule = "maximum"
			case 2:
				vals["subtwo"] = map[string]interface{}{"s": nil}
				rule = "required"
			}
		case 0:
			if g.Chance(0.5) {
				vals["count"] = float64(1 + g.N(10))
				vals["mode"] = g.Pick("x", "y")
			}
			if g.Chance(0.3) {
				vals["global"] = map[string]interface{}{"tier": g.Pick("dev", "prod")}
			}
		case 1:
			violates = "root"
			switch g.N(6) {
			case 0:
				vals["count"] = float64(11 + g.N(50))
				rule = "maximum"
			case 1:
				vals["count"] = "three"
				rule = "type"
			case 2:
				vals["mode"] = "z"
				rule = "enum"
			case 3:
				vals["name"] = nil // removes the default: required key missing
				rule = "required"
			case 4:
				vals["nested"] = map[string]interface{}{"extra": true}
				rule = "additionalProperties"
			case 5:
				vals["count"] = float64(0)
				rule = "minimum"
			}
		case 2:
			if !withSub {
				break
			}
			violates = "sub"
			switch g.N(5) {
			case 4:
				// a keyword next to a $ref: the schema names no dialect, and in the one Helm compiles such schemas with the
				// neighbours of a reference constrain the value like any other keyword
				vals[subKey] = map[string]interface{}{"port": float64(70000)}
				rule = "ref-sibling-maximum"
			case 3:
				// a global the subchart's schema constrains (the root schema says nothing about it)
				vals["global"] = map[string]interface{}{"tier": "bogus"}
				rule = "global-enum"
				if withSib {
					violates = "sib" // the always-enabled sibling's schema sees the same global
				}
			case 0:
				vals[subKey] = map[string]interface{}{"s": float64(5)}
				rule = "type"
			case 1:
				vals[subKey] = map[string]interface{}{"size": float64(9)}
				rule = "maximum"
			case 2:
				vals[subKey] = map[string]interface{}{"s": nil}
				rule = "required"
			}
		}
		return
	}
	if g.Chance(0.04) {
		// a schema document that is valid JSON Schema but not an object: `false` is satisfied by nothing
		cs := ChartSpec{Name: "demo", Version: "3.0.0", Values: map[string]interface{}{"name": "ok"}, Schema: "false"}
		cs.Slots = []ResSlot{{Kind: "ConfigMap", Name: "cm1", File: "a.yaml", Marker: g.Marker(), Data: map[string]string{"k": "$name"}}}
		where := "root"
		if g.Chance(0.5) {
			cs.Schema = ""
			sc := SubchartSpec{Name: "subone", Values: map[string]interface{}{"s": "fine"}, Schema: "false"}
			sc.Slots = []ResSlot{{Kind: "ConfigMap", Name: "sub-cm1", File: "s.yaml", Marker: g.Marker(), Data: map[string]string{"s": "$s"}}}
			cs.Subcharts = []SubchartSpec{sc}
			where = "sub"
		}
		p.Charts = []ChartSpec{cs}
		op := OpSpec{Op: "install", Chart: 0, Values: map[string]interface{}{}, SkipSchema: g.Chance(0.15)}
		if g.Chance(0.3) {
			op.DryRun, op.DryRunOption, op.ClientOnly, op.Replace = true, "true", true, true
		}
		op.Description = fmt.Sprintf("c14:%s:true:%s", where, "false-schema")
		p.Steps = append(p.Steps, Step{Op: &op})
		p.Variant = "boolean-schema"
		p.Policy = "uniform"
		p.Schedule = g.Schedule(16)
		return p.Clone()
	}
	shape := g.N(5)
	if shape == 4 {
		// three levels: root -> middle (with or without its own schema) -> leaf with a schema
		mid := SubchartSpec{Name: "middle", Values: map[string]interface{}{"m": "x"}}
		if g.Chance(0.5) {
			mid.Schema = `{"type":"object"}`
		}
		mid.Slots = []ResSlot{{Kind: "ConfigMap", Name: "mid-cm", File: "m.yaml", Marker: g.Marker(), Data: map[string]string{"m": "$m"}}}
		leaf := SubchartSpec{Name: "leaf", Values: map[string]interface{}{"s": "fine", "size": float64(1)}, Schema: c14SubSchema}
		leaf.Slots = []ResSlot{{Kind: "ConfigMap", Name: "leaf-cm", File: "l.yaml", Marker: g.Marker(), Data: map[string]string{"s": "$s"}}}
		mid.Sub = []SubchartSpec{leaf}
		cs := ChartSpec{Name: "demo", Version: "2.0.0", Values: map[string]interface{}{"name": "ok"}, Subcharts: []SubchartSpec{mid}}
		cs.Slots = []ResSlot{{Kind: "ConfigMap", Name: "cm1", File: "a.yaml", Marker: g.Marker(), Data: map[string]string{"k": "$name"}}}
		p.Charts = []ChartSpec{cs}
		vals := map[string]interface{}{}
		v, rule := "none", "none"
		if g.Chance(0.6) {
			v = "leaf"
			switch g.N(3) {
			case 0:
				vals["middle"] = map[string]interface{}{"leaf": map[string]interface{}{"s": float64(7)}}
				rule = "type"
			case 1:
				vals["middle"] = map[string]interface{}{"leaf": map[string]interface{}{"size": float64(99)}}
				rule = "maximum"
			case 2:
				vals["middle"] = map[string]interface{}{"leaf": map[string]interface{}{"s": nil}}
				rule = "required"
			}
		}
		op := OpSpec{Op: "install", Chart: 0, Values: vals, SkipSchema: g.Chance(0.15)}
		if g.Chance(0.3) {
			op.DryRun, op.DryRunOption, op.ClientOnly, op.Replace = true, "true", true, true
		}
		if g.Chance(0.3) {
			op = OpSpec{Op: "lint", Chart: 0, Values: vals, SkipSchema: op.SkipSchema}
		}
		op.Description = fmt.Sprintf("c14:%s:true:%s", v, rule)
		p.Steps = append(p.Steps, Step{Op: &op})
		p.Variant = "shape4-three-levels"
		p.Policy = "uniform"
		p.Schedule = g.Schedule(16)
		return p.Clone()
	}
	switch shape {
	case 0: // direct install of the schema'd version
		vals, v, rule, se := draw()
		op := OpSpec{Op: "install", Chart: 1, Values: vals, SkipSchema: g.Chance(0.2), SkipCRDs: g.Chance(0.3), NoHooks: g.Chance(0.2), NoOpenAPI: g.Chance(0.3)}
		op.Description = fmt.Sprintf("c14:%s:%v:%s", v, se, rule)
		p.Steps = append(p.Steps, Step{Op: &op})
	case 1: // template-shaped install
		vals, v, rule, se := draw()
		op := OpSpec{Op: "install", Chart: 1, Values: vals, DryRun: true, DryRunOption: "true", ClientOnly: g.Chance(0.7), Replace: true, SkipSchema: g.Chance(0.2)}
		if g.Chance(0.5) {
			// helm lint is the fourth command the statement names
			op = OpSpec{Op: "lint", Chart: 1, Values: vals, SkipSchema: op.SkipSchema}
		}
		op.Description = fmt.Sprintf("c14:%s:%v:%s", v, se, rule)
		p.Steps = append(p.Steps, Step{Op: &op})
	case 2: // install clean, upgrade with violating values
		p.Steps = append(p.Steps, Step{Op: &OpSpec{Op: "install", Chart: g.N(2)}})
		vals, v, rule, se := draw()
		op := OpSpec{Op: "upgrade", Chart: 1, Values: vals, SkipSchema: g.Chance(0.2), ResetValues: g.Chance(0.3), SkipCRDs: g.Chance(0.3), NoOpenAPI: g.Chance(0.3)}
		if g.Chance(0.2) {
			op.DryRun = true
		}
		op.Description = fmt.Sprintf("c14:%s:%v:%s", v, se, rule)
		p.Steps = append(p.Steps, Step{Op: &op})
	case 3: // install the schema-less version with values the next version's schema rejects, then reuse them
		vals, v, rule, se := draw()
		p.Steps = append(p.Steps, Step{Op: &OpSpec{Op: "install", Chart: 0, Values: vals}})
		op := OpSpec{Op: "upgrade", Chart: 1, SkipSchema: g.Chance(0.2)}
		if g.Chance(0.5) {
			op.ReuseValues = true
			// with reuse-values the old chart's defaults stay in force; the reused user values still apply
		} else {
			op.ResetThenReuse = true
		}
		op.Description = fmt.Sprintf("c14:%s:%v:%s", v, se, rule)
		p.Steps = append(p.Steps, Step{Op: &op})
	}
	p.Variant = fmt.Sprintf("shape%d", shape)
	p.Policy = "uniform"
	p.Schedule = g.Schedule(16)
	return p.Clone()
}
