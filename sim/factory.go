package sim

// Construction of one simulated Helm "process": the real kube.Client, real
// client-go REST stack, real typed clientset and real storage drivers on top
// of the process's simulated transport.

import (
	"fmt"
	"strings"
	"time"

	"k8s.io/apimachinery/pkg/api/meta"
	"k8s.io/apimachinery/pkg/runtime/schema"
	"k8s.io/cli-runtime/pkg/resource"
	"k8s.io/client-go/discovery"
	"k8s.io/client-go/dynamic"
	"k8s.io/client-go/kubernetes"
	"k8s.io/client-go/rest"
	"k8s.io/client-go/tools/clientcmd"
	clientcmdapi "k8s.io/client-go/tools/clientcmd/api"
	"k8s.io/kubectl/pkg/validation"

	"helm.sh/helm/v4/pkg/action"
	"helm.sh/helm/v4/pkg/kube"
	release "helm.sh/helm/v4/pkg/release/v1"
	"helm.sh/helm/v4/pkg/storage"
	"helm.sh/helm/v4/pkg/storage/driver"
)

func init() {
	kube.ManagedFieldsManager = "helm"
}

func staticMapper() meta.RESTMapper {
	var gvs []schema.GroupVersion
	seen := map[schema.GroupVersion]bool{}
	for _, r := range Palette {
		gv := schema.GroupVersion{Group: r.Group, Version: r.Version}
		if !seen[gv] {
			seen[gv] = true
			gvs = append(gvs, gv)
		}
	}
	m := meta.NewDefaultRESTMapper(gvs)
	for _, r := range Palette {
		scope := meta.RESTScopeNamespace
		if !r.Namespaced {
			scope = meta.RESTScopeRoot
		}
		m.AddSpecific(r.GVK(), r.GVK().GroupVersion().WithResource(r.Resource), r.GVK().GroupVersion().WithResource(strings.TrimSuffix(r.Resource, "s")), scope)
	}
	return m
}

type simFactory struct {
	cfg    *rest.Config
	ns     string
	mapper meta.RESTMapper
}

func (f *simFactory) ToRESTConfig() (*rest.Config, error) { return rest.CopyConfig(f.cfg), nil }
func (f *simFactory) ToRawKubeConfigLoader() clientcmd.ClientConfig {
	return &nsConfig{ns: f.ns, cfg: f.cfg}
}
func (f *simFactory) DynamicClient() (dynamic.Interface, error) { return dynamic.NewForConfig(f.cfg) }
func (f *simFactory) KubernetesClientSet() (*kubernetes.Clientset, error) {
	return kubernetes.NewForConfig(f.cfg)
}
func (f *simFactory) NewBuilder() *resource.Builder { return resource.NewBuilder(f) }
func (f *simFactory) Validator(string) (validation.Schema, error) {
	return validation.NullSchema{}, nil
}
func (f *simFactory) ToDiscoveryClient() (discovery.CachedDiscoveryInterface, error) {
	dc, err := discovery.NewDiscoveryClientForConfig(f.cfg)
	if err != nil {
		return nil, err
	}
	// No memory cache: client-go's memCacheClient retries transient discovery
	// errors while holding its mutex, and a goroutine blocked on a sync.Mutex
	// is not "durably blocked" for synctest, which would wedge the scheduler.
	// The CLI uses a disk cache here; an uncached client only issues more GETs.
	return &uncachedDiscovery{dc}, nil
}

type uncachedDiscovery struct{ *discovery.DiscoveryClient }

func (uncachedDiscovery) Fresh() bool                        { return true }
func (uncachedDiscovery) Invalidate()                        {}
func (f *simFactory) ToRESTMapper() (meta.RESTMapper, error) { return f.mapper, nil }

type nsConfig struct {
	ns  string
	cfg *rest.Config
}

func (c *nsConfig) RawConfig() (clientcmdapi.Config, error) { return clientcmdapi.Config{}, nil }
func (c *nsConfig) ClientConfig() (*rest.Config, error)     { return c.cfg, nil }
func (c *nsConfig) Namespace() (string, bool, error)        { return c.ns, false, nil }
func (c *nsConfig) ConfigAccess() clientcmd.ConfigAccess    { return nil }

// simClient is the real kube.Client with GetWaiter replaced by the stub.
type simClient struct {
	*kube.Client
	proc *Proc
}

func (c *simClient) GetWaiter(ws kube.WaitStrategy) (kube.Waiter, error) {
	return &stubWaiter{proc: c.proc, hookOnly: ws == kube.HookOnlyStrategy}, nil
}

// stubWaiter asks the simulator instead of polling/watching the cluster.
type stubWaiter struct {
	proc     *Proc
	hookOnly bool // mirrors kube.hookOnlyWaiter: only hooks are waited for
}

func resIDs(rl kube.ResourceList) []ObjID {
	var ids []ObjID
	for _, i := range rl {
		gvk := i.Mapping.GroupVersionKind
		ns := i.Namespace
		if i.Mapping.Scope.Name() == meta.RESTScopeNameRoot {
			ns = ""
		}
		ids = append(ids, ObjID{Group: gvk.Group, Kind: gvk.Kind, Namespace: ns, Name: i.Name})
	}
	return ids
}

func (w *stubWaiter) call(verb string, rl kube.ResourceList, timeout time.Duration) error {
	pr := w.proc
	s := pr.Sim
	s.mu.Lock()
	crashed := pr.Crashed
	s.mu.Unlock()
	if crashed {
		return errCrashed
	}
	ids := resIDs(rl)
	names := make([]string, len(ids))
	for i, id := range ids {
		names[i] = id.Kind + "/" + id.Name
	}
	p := &pend{kind: pkWait, proc: pr, verb: verb, path: strings.Join(names, ","), waitRes: ids, waitTO: timeout}
	r := s.park(p)
	switch r.verdict {
	case "timeout":
		return fmt.Errorf("context deadline exceeded (simulated: %s timed out after %v)", verb, timeout)
	case "fail":
		return fmt.Errorf("job %s failed: BackoffLimitExceeded (simulated)", p.path)
	}
	return r.err
}

func (w *stubWaiter) Wait(rl kube.ResourceList, t time.Duration) error {
	if w.hookOnly {
		return nil
	}
	return w.call("WAIT", rl, t)
}
func (w *stubWaiter) WaitWithJobs(rl kube.ResourceList, t time.Duration) error {
	if w.hookOnly {
		return nil
	}
	return w.call("WAIT", rl, t)
}
func (w *stubWaiter) WaitForDelete(rl kube.ResourceList, t time.Duration) error {
	if w.hookOnly {
		return nil
	}
	return w.call("WAITDEL", rl, t)
}
func (w *stubWaiter) WatchUntilReady(rl kube.ResourceList, t time.Duration) error {
	return w.call("WATCH", rl, t)
}

// seamDriver is the pass-through storage seam. It records every call; for the
// memory backend it also parks so that the scheduler interleaves storage calls
// and can inject storage faults.
type seamDriver struct {
	inner driver.Driver
	proc  *Proc
	park  bool
}

func (d *seamDriver) Name() string { return d.inner.Name() }

func relStatus(rls *release.Release) string {
	if rls == nil || rls.Info == nil {
		return ""
	}
	return " " + rls.Info.Status.String()
}

// call routes one driver call through the seam. fn performs the real call.
func (d *seamDriver) call(op, key string, write bool, fn func() error) (err error, applied bool) {
	if !d.park || d.proc.Direct {
		err = fn()
		return err, err == nil
	}
	s := d.proc.Sim
	s.mu.Lock()
	crashed := d.proc.Crashed
	s.mu.Unlock()
	if crashed {
		return errCrashed, false
	}
	var fnErr error
	p := &pend{kind: pkStore, proc: d.proc, verb: "STORE", path: op + " " + key, write: write}
	p.fn = func() { fnErr = fn() }
	r := s.park(p)
	if r.err != nil {
		return r.err, false
	}
	switch r.verdict {
	case "err-before":
		return errStoreFault, false
	case "done": // already executed by the scheduler
		return fnErr, fnErr == nil
	case "err-after":
		if e := fn(); e != nil {
			return e, false
		}
		return errStoreFault, true
	}
	err = fn()
	return err, err == nil
}

func (d *seamDriver) record(op, key string, rls *release.Release, status string, err error, applied bool) {
	if d.proc.Direct {
		return
	}
	c := StoreCall{Op: op, Key: key, Applied: applied, Status: status}
	if rls != nil {
		c.Rev = rls.Version
	}
	if err != nil {
		c.Err = err.Error()
	}
	s := d.proc.Sim
	s.mu.Lock()
	c.Seq = s.curSeq()
	d.proc.StoreLog = append(d.proc.StoreLog, c)
	s.mu.Unlock()
}

var errStoreFault = fmt.Errorf("simulated storage failure")

func statusOf(rls *release.Release) string {
	if rls == nil || rls.Info == nil {
		return ""
	}
	return rls.Info.Status.String()
}

func (d *seamDriver) Create(key string, rls *release.Release) error {
	st := statusOf(rls)
	err, applied := d.call("create", key+relStatus(rls), true, func() error { return d.inner.Create(key, rls) })
	d.record("create", key, rls, st, err, applied)
	return err
}

func (d *seamDriver) Update(key string, rls *release.Release) error {
	st := statusOf(rls)
	err, applied := d.call("update", key+relStatus(rls), true, func() error { return d.inner.Update(key, rls) })
	d.record("update", key, rls, st, err, applied)
	return err
}

func (d *seamDriver) Delete(key string) (*release.Release, error) {
	var out *release.Release
	err, applied := d.call("delete", key, true, func() error {
		var e error
		out, e = d.inner.Delete(key)
		return e
	})
	d.record("delete", key, out, "", err, applied)
	if err != nil {
		return nil, err
	}
	return out, nil
}

func (d *seamDriver) Get(key string) (*release.Release, error) {
	var out *release.Release
	err, _ := d.call("get", key, false, func() error {
		var e error
		out, e = d.inner.Get(key)
		return e
	})
	if err != nil {
		return nil, err
	}
	return out, nil
}

func (d *seamDriver) List(filter func(*release.Release) bool) ([]*release.Release, error) {
	var out []*release.Release
	err, _ := d.call("list", "", false, func() error {
		var e error
		out, e = d.inner.List(filter)
		return e
	})
	if err != nil {
		return nil, err
	}
	return out, nil
}

func (d *seamDriver) Query(labels map[string]string) ([]*release.Release, error) {
	var out []*release.Release
	err, _ := d.call("query", labels["name"]+"/"+labels["status"], false, func() error {
		var e error
		out, e = d.inner.Query(labels)
		return e
	})
	if err != nil {
		return nil, err
	}
	return out, nil
}

// Process bundles everything one Helm invocation owns.
type Process struct {
	Proc    *Proc
	Cfg     *action.Configuration
	Client  *simClient
	Factory *simFactory
	Seam    *seamDriver
}

// World-level shared state for building processes.
type Backend struct {
	Kind   string         // memory | secrets | configmaps
	Memory *driver.Memory // shared instance for the memory backend
}

// NewProcess builds a fresh Helm process (fresh Configuration, kube.Client,
// clientset and driver), exactly like one CLI invocation.
func (s *Sim) NewProcess(id, namespace string, be *Backend, clientTimeout time.Duration, direct bool) (*Process, error) {
	pr := s.NewProc(id)
	pr.Direct = direct
	cfg := &rest.Config{
		Host:      "http://sim.cluster.local",
		Transport: pr,
		Timeout:   clientTimeout,
		QPS:       -1,
		ContentConfig: rest.ContentConfig{
			ContentType:        "application/json",
			AcceptContentTypes: "application/json",
		},
	}
	f := &simFactory{cfg: cfg, ns: namespace, mapper: staticMapper()}
	kc := &simClient{Client: &kube.Client{Factory: f, Namespace: namespace}, proc: pr}
	var d driver.Driver
	park := false
	switch be.Kind {
	case "memory":
		be.Memory.SetNamespace(namespace)
		d = be.Memory
		park = true
	case "secrets":
		cs, err := kubernetes.NewForConfig(cfg)
		if err != nil {
			return nil, err
		}
		d = driver.NewSecrets(cs.CoreV1().Secrets(namespace))
	case "configmaps":
		cs, err := kubernetes.NewForConfig(cfg)
		if err != nil {
			return nil, err
		}
		d = driver.NewConfigMaps(cs.CoreV1().ConfigMaps(namespace))
	default:
		return nil, fmt.Errorf("unknown backend %q", be.Kind)
	}
	seam := &seamDriver{inner: d, proc: pr, park: park}
	ac := &action.Configuration{
		RESTClientGetter: f,
		KubeClient:       kc,
		Releases:         storage.Init(seam),
	}
	return &Process{Proc: pr, Cfg: ac, Client: kc, Factory: f, Seam: seam}, nil
}
