package sim

// A Plan is pure data: everything random about one run is drawn while the
// Plan is built, before any Helm code runs. Executing a Plan draws nothing.
// A Plan file is the replay file.

import (
	"encoding/json"
	"os"
	"strings"
)

const (
	FReject         = "reject"
	FDrop           = "drop"
	FLostResponse   = "lost-response"
	FStall          = "stall"
	FCrashBefore    = "crash-before"
	FCrashAfter     = "crash-after"
	FNotReady       = "not-ready"
	FHookFail       = "hook-fail"
	FStoreErrBefore = "storage-error-before"
	FStoreErrAfter  = "storage-error-after"
	FOob            = "oob" // not a fault of the call itself: an out-of-band actor acts just before this call is served
)

// Pred selects a seam call by content instead of by position.
type Pred struct {
	Verb     string `json:"verb,omitempty"`     // HTTP method or WAIT/WATCH/WAITDEL/STORE
	Kind     string `json:"kind,omitempty"`     // object kind addressed
	Name     string `json:"name,omitempty"`     // object name addressed (exact)
	NameHas  string `json:"nameHas,omitempty"`  // substring of the path (e.g. record name prefix)
	PathHas  string `json:"pathHas,omitempty"`  // substring of the path
	PathNot  string `json:"pathNot,omitempty"`  // substring the path must not contain
	Nth      int    `json:"nth,omitempty"`      // fire on the n-th match (0 = every match up to Repeat)
	BodyHas  string `json:"bodyHas,omitempty"`  // substring of the request body
	Storage  *bool  `json:"storage,omitempty"`  // request addresses a release record (true) / anything else (false)
	Mutating *bool  `json:"mutating,omitempty"` // request is POST/PUT/PATCH/DELETE
}

type FaultSpec struct {
	Proc   string   `json:"proc,omitempty"` // process id; empty = any process of the step
	K      int      `json:"k,omitempty"`    // hit the k-th seam call served for that process (1-based); 0 = use Pred
	Pred   *Pred    `json:"pred,omitempty"`
	Kind   string   `json:"kind"`
	Code   int      `json:"code,omitempty"`   // HTTP status for reject
	Sticky bool     `json:"sticky,omitempty"` // the same verb+path keeps failing for the rest of the process
	Repeat bool     `json:"repeat,omitempty"` // may fire more than once (with Pred)
	Oob    *OobSpec `json:"oob,omitempty"`    // for kind "oob"

	fired bool
	seen  int
}

func (f *FaultSpec) appliesTo(p *pend) bool {
	switch f.Kind {
	case FReject, FDrop, FLostResponse, FStall, FCrashBefore, FCrashAfter:
		return p.kind == pkHTTP
	case FNotReady:
		return p.kind == pkWait && (p.verb == "WAIT" || p.verb == "WAITDEL")
	case FHookFail:
		return p.kind == pkWait && p.verb == "WATCH"
	case FStoreErrBefore, FStoreErrAfter:
		return p.kind == pkStore
	case FOob:
		return true
	}
	return false
}

func isRecordName(name string) bool { return strings.HasPrefix(name, "sh.helm.release.v1.") }

func (pd *Pred) match(p *pend) bool {
	if pd == nil {
		return true
	}
	if pd.Verb != "" && pd.Verb != p.verb {
		return false
	}
	if pd.Kind != "" && (p.target == nil || p.target.Kind != pd.Kind) {
		if !(p.kind == pkWait && strings.Contains(p.path, pd.Kind+"/")) {
			return false
		}
	}
	if pd.Name != "" {
		if p.kind == pkWait {
			if !strings.Contains(","+p.path+",", "/"+pd.Name+",") {
				return false
			}
		} else if p.target == nil || p.target.Name != pd.Name {
			return false
		}
	}
	if pd.NameHas != "" && (p.target == nil || !strings.Contains(p.target.Name, pd.NameHas)) {
		return false
	}
	if pd.PathHas != "" && !strings.Contains(p.path, pd.PathHas) {
		return false
	}
	if pd.PathNot != "" && strings.Contains(p.path, pd.PathNot) {
		return false
	}
	if pd.BodyHas != "" && !strings.Contains(string(p.body), pd.BodyHas) {
		return false
	}
	if pd.Storage != nil {
		isRec := p.target != nil && isRecordName(p.target.Name) || (p.kind == pkHTTP && strings.Contains(p.rawQuery, "owner%3Dhelm")) || p.kind == pkStore
		if isRec != *pd.Storage {
			return false
		}
	}
	if pd.Mutating != nil {
		m := p.verb == "POST" || p.verb == "PUT" || p.verb == "PATCH" || p.verb == "DELETE"
		if m != *pd.Mutating {
			return false
		}
	}
	return true
}

// ---- charts ----

type HookSpec struct {
	Events    []string `json:"events"`
	Weight    *int     `json:"weight,omitempty"`
	Policies  []string `json:"policies,omitempty"` // nil = annotation absent
	RawEvents string   `json:"rawEvents,omitempty"`
	PadWeight int      `json:"padWeight,omitempty"` // write the weight zero-padded to this many digits ("08", "-09", "010")
	PolicySep string   `json:"policySep,omitempty"` // separator between delete policies in the annotation ("" = ",")
}

// ResSlot describes one YAML document emitted by a template.
type ResSlot struct {
	Kind    string            `json:"kind"`
	Group   string            `json:"group,omitempty"`  // API group override (a kind served by more than one group)
	APIVer  string            `json:"apiVer,omitempty"` // version override within the kind's group (a kind served at two versions)
	Name    string            `json:"name"`
	NS      string            `json:"ns,omitempty"`   // explicit metadata.namespace
	File    string            `json:"file"`           // template file name (under templates/)
	Marker  string            `json:"marker"`         // unique marker label value
	Data    map[string]string `json:"data,omitempty"` // field -> literal or "$path" (value path)
	Keep    string            `json:"keep,omitempty"` // value of helm.sh/resource-policy ("" = absent)
	Hook    *HookSpec         `json:"hook,omitempty"`
	Ports   []int             `json:"ports,omitempty"`  // Service / Deployment container ports
	Rep     int               `json:"rep,omitempty"`    // Deployment replicas
	Image   string            `json:"image,omitempty"`  // Deployment/Job/Pod image
	Cond    string            `json:"cond,omitempty"`   // wrap in {{ if .Values.<cond> }}
	Style   string            `json:"style,omitempty"`  // document decoration: "", "crlf", "comment", "blanklead"
	Labels  map[string]string `json:"labels,omitempty"` // extra labels
	Annots  map[string]string `json:"annots,omitempty"` // extra annotations
	Unknown bool              `json:"unknown,omitempty"`
}

type SubchartSpec struct {
	Name      string                 `json:"name"`
	Alias     string                 `json:"alias,omitempty"`
	Condition string                 `json:"condition,omitempty"`
	Slots     []ResSlot              `json:"slots"`
	Values    map[string]interface{} `json:"values,omitempty"`
	Schema    string                 `json:"schema,omitempty"`
	Notes     string                 `json:"notes,omitempty"`
	Sub       []SubchartSpec         `json:"sub,omitempty"` // nested dependencies
	// Undeclared: the subchart sits in charts/ without an entry under dependencies in Chart.yaml (still rendered by Helm)
	Undeclared bool `json:"undeclared,omitempty"`
}

type ChartSpec struct {
	Name      string                 `json:"name"`
	Version   string                 `json:"version"`
	Slots     []ResSlot              `json:"slots"`
	Values    map[string]interface{} `json:"values,omitempty"`
	Schema    string                 `json:"schema,omitempty"`
	Notes     string                 `json:"notes,omitempty"`
	Partials  bool                   `json:"partials,omitempty"`
	Subcharts []SubchartSpec         `json:"subcharts,omitempty"`
	CRDs      []string               `json:"crds,omitempty"` // names of CRDs in crds/
	RawFiles  map[string]string      `json:"rawFiles,omitempty"`
	SepStyle  map[string]string      `json:"sepStyle,omitempty"` // template file -> how documents are separated: "", crlf, comment, spaces, doubled
}

// ---- operations ----

type OpSpec struct {
	Op      string                 `json:"op"` // install upgrade rollback uninstall history list get status getvalues
	Release string                 `json:"release,omitempty"`
	Chart   int                    `json:"chart"` // index into Plan.Charts
	Values  map[string]interface{} `json:"values,omitempty"`

	Atomic          bool              `json:"atomic,omitempty"`
	Replace         bool              `json:"replace,omitempty"`
	NoHooks         bool              `json:"noHooks,omitempty"`
	TakeOwnership   bool              `json:"takeOwnership,omitempty"`
	CreateNamespace bool              `json:"createNamespace,omitempty"`
	WaitForJobs     bool              `json:"waitForJobs,omitempty"`
	Wait            bool              `json:"wait,omitempty"`
	DryRun          bool              `json:"dryRun,omitempty"`
	DryRunOption    string            `json:"dryRunOption,omitempty"`
	ClientOnly      bool              `json:"clientOnly,omitempty"`
	SkipCRDs        bool              `json:"skipCRDs,omitempty"`
	IncludeCRDs     bool              `json:"includeCRDs,omitempty"`
	CLI             []string          `json:"cli,omitempty"`     // Op "cli": arguments of a helm command line; @CHART@ = chart directory, @VALUES@ = values file
	CLIKind         string            `json:"cliKind,omitempty"` // template | install | upgrade | uninstall | rollback (for signatures)
	SkipSchema      bool              `json:"skipSchema,omitempty"`
	NoOpenAPI       bool              `json:"noOpenAPI,omitempty"` // --disable-openapi-validation
	Labels          map[string]string `json:"labels,omitempty"`
	CleanupOnFail   bool              `json:"cleanupOnFail,omitempty"`
	MaxHistory      int               `json:"maxHistory,omitempty"`
	ResetValues     bool              `json:"resetValues,omitempty"`
	ReuseValues     bool              `json:"reuseValues,omitempty"`
	ResetThenReuse  bool              `json:"resetThenReuse,omitempty"`
	Force           bool              `json:"force,omitempty"`
	Revision        int               `json:"revision,omitempty"` // rollback target (0 = previous)
	KeepHistory     bool              `json:"keepHistory,omitempty"`
	SubNotes        bool              `json:"subNotes,omitempty"`
	PostRender      bool              `json:"postRender,omitempty"`
	TimeoutS        int               `json:"timeoutS,omitempty"`
	Description     string            `json:"description,omitempty"`
	IsUpgrade       bool              `json:"isUpgrade,omitempty"`
}

type OobSpec struct {
	Action string                 `json:"action"` // edit delete create annotate
	Kind   string                 `json:"kind"`
	Name   string                 `json:"name"`
	NS     string                 `json:"ns,omitempty"`
	Field  string                 `json:"field,omitempty"` // dotted path for edit
	Value  interface{}            `json:"value,omitempty"`
	Obj    map[string]interface{} `json:"obj,omitempty"` // full object for create
}

type CorruptSpec struct {
	Rev  int    `json:"rev"`  // revision of the record to damage (0 = latest)
	Mode string `json:"mode"` // bitflip truncate zero garbage b64nogzip emptydata jsonnull
	Pos  int    `json:"pos"`
}

type Step struct {
	Op      *OpSpec      `json:"op,omitempty"`
	Group   []OpSpec     `json:"group,omitempty"` // concurrent operations
	Oob     *OobSpec     `json:"oob,omitempty"`
	Corrupt *CorruptSpec `json:"corrupt,omitempty"`
	Store   *StoreOp     `json:"store,omitempty"` // C10: one driver call
	JumpS   int          `json:"jumpS,omitempty"` // clock jump before the step
	Faults  []FaultSpec  `json:"faults,omitempty"`
}

type Plan struct {
	Check     string      `json:"check"`
	Seed      uint64      `json:"seed"`
	Index     uint64      `json:"index"`
	Variant   string      `json:"variant,omitempty"` // population within the check
	Backend   string      `json:"backend"`
	Namespace string      `json:"namespace"`
	Release   string      `json:"release"`
	NSMissing bool        `json:"nsMissing,omitempty"` // namespace object absent at start
	ClientTOs int         `json:"clientTimeoutS,omitempty"`
	Charts    []ChartSpec `json:"charts"`
	Planted   []OobSpec   `json:"planted,omitempty"` // objects present before the first step
	Steps     []Step      `json:"steps"`
	Policy    string      `json:"policy,omitempty"` // uniform | pct | fifo
	Schedule  []uint32    `json:"schedule,omitempty"`
	PCT       []int       `json:"pct,omitempty"`
	PCTPrio   []int       `json:"pctPrio,omitempty"`
	CoRelease string      `json:"coRelease,omitempty"` // "" | "sched" | "inner" (race-detector runs)
	Expect    string      `json:"expect,omitempty"`    // violation signature this replay file reproduces
	ShareCfg  bool        `json:"shareCfg,omitempty"`
	Render    *RenderSpec `json:"render,omitempty"` // C05
	Net       *NetSpec    `json:"net,omitempty"`    // C19/C17/C20b
	Disk      *DiskSpec   `json:"disk,omitempty"`   // C20d
}

func (p *Plan) Clone() *Plan {
	b, _ := json.Marshal(p)
	var q Plan
	if err := json.Unmarshal(b, &q); err != nil {
		panic(err)
	}
	return &q
}

func LoadPlan(path string) (*Plan, error) {
	b, err := os.ReadFile(path)
	if err != nil {
		return nil, err
	}
	var p Plan
	if err := json.Unmarshal(b, &p); err != nil {
		return nil, err
	}
	return &p, nil
}

func (p *Plan) Save(path string) error {
	b, err := json.MarshalIndent(p, "", " ")
	if err != nil {
		return err
	}
	return os.WriteFile(path, b, 0o644)
}
