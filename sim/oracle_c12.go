package sim

// C12 — hooks run in weight order, gate the operation, honour delete policies.

import (
	"fmt"
	"sort"
	"strings"
)

type hookExp struct {
	slot *ResSlot
	id   ObjID
}

func hookWeight(s *ResSlot) int {
	if s.Hook == nil || s.Hook.Weight == nil {
		return 0
	}
	return *s.Hook.Weight
}

func hasStr(xs []string, v string) bool {
	for _, x := range xs {
		if x == v {
			return true
		}
	}
	return false
}

// hooksFor lists the hooks of a chart version that fire on the event, in the
// order the property demands: ascending weight, ties by name.
func hooksFor(cs *ChartSpec, event, ns string) []hookExp {
	var out []hookExp
	for i := range cs.Slots {
		s := &cs.Slots[i]
		if s.Hook != nil && hasStr(s.Hook.Events, event) {
			out = append(out, hookExp{s, slotID(s, ns)})
		}
	}
	sort.SliceStable(out, func(i, j int) bool {
		wi, wj := hookWeight(out[i].slot), hookWeight(out[j].slot)
		if wi != wj {
			return wi < wj
		}
		return out[i].slot.Name < out[j].slot.Name
	})
	return out
}

func (x *Exec) revChart() map[int]int {
	// revision -> chart index, reconstructed from the steps executed so far
	m := map[int]int{}
	for _, so := range x.Steps {
		if so.After == nil || len(so.Results) != 1 {
			continue
		}
		r := so.Results[0]
		bset := revSet(so.Before)
		for _, lr := range so.After.Ledger {
			if bset[lr.Rev] {
				continue
			}
			// (an upgrade --atomic that fails creates two revisions, the second a copy of the one rolled back to: the chart
			// version stored with the revision says which chart it carries)
			if ci, ok := chartIndexByVersion(x.Plan, lr.ChartVer); ok {
				m[lr.Rev] = ci
				continue
			}
			switch r.Op.Op {
			case "install", "upgrade":
				m[lr.Rev] = r.Op.Chart
			case "rollback":
				t := r.Op.Revision
				if t == 0 {
					t = so.Before.MaxRev() - 1
				}
				if c, ok := m[t]; ok {
					m[lr.Rev] = c
				}
			}
		}
	}
	return m
}

// chartIndexByVersion finds the chart of the plan with the given version, if the versions are distinct.
func chartIndexByVersion(p *Plan, ver string) (int, bool) {
	found, n := 0, 0
	for i := range p.Charts {
		if p.Charts[i].Version == ver && ver != "" {
			found = i
			n++
		}
	}
	return found, n == 1
}

func oracleC12(x *Exec, so *StepObs) {
	if so.After == nil || len(so.Results) != 1 {
		return
	}
	const P = "C12"
	r := so.Results[0]
	op := &r.Op
	if isDryOp(op) || r.Crashed {
		return
	}
	if op.Op == "cli" {
		// the command line route: only the last sentence is judged (--no-hooks must reach whichever action the command
		// ends up running, e.g. the install that `upgrade --install` falls back to)
		if !op.NoHooks {
			return
		}
		x.Res.Checks++
		all := map[string]bool{}
		for ci := range x.Plan.Charts {
			for i := range x.Plan.Charts[ci].Slots {
				if x.Plan.Charts[ci].Slots[i].Hook != nil {
					all[slotID(&x.Plan.Charts[ci].Slots[i], x.Plan.Namespace).String()] = true
				}
			}
		}
		for _, q := range r.Reqs {
			if q.Verb == "POST" && q.ID != nil && all[q.ID.String()] && q.SeqOut != 0 {
				x.Violate(Violation{"C12", "disabled-hooks-not-created", "cli-" + op.CLIKind, "nohooks" + ledgerCtx(so.Before), fmt.Sprintf("hook %s was created although hooks are disabled (helm %s)", q.ID, strings.Join(op.CLI, " ")), so.Index})
				x.stop = true
				return
			}
		}
		x.Sim.Probe("c12-cli-nohooks-judged")
		return
	}
	if op.Atomic {
		// only the last sentence of the statement is judged for --atomic: with hooks disabled none is created, not by the
		// operation itself and not by the rollback / uninstall it runs on failure (whose hooks come from other chart versions)
		if op.NoHooks {
			x.Res.Checks++
			all := map[string]bool{}
			for ci := range x.Plan.Charts {
				for i := range x.Plan.Charts[ci].Slots {
					if x.Plan.Charts[ci].Slots[i].Hook != nil {
						all[slotID(&x.Plan.Charts[ci].Slots[i], x.Plan.Namespace).String()] = true
					}
				}
			}
			for _, q := range r.Reqs {
				if q.Verb == "POST" && q.ID != nil && all[q.ID.String()] && q.SeqOut != 0 {
					x.Violate(Violation{"C12", "disabled-hooks-not-created", op.Op, "nohooks+atomic", fmt.Sprintf("hook %s was created although hooks are disabled (%s --atomic --no-hooks)", q.ID, op.Op), so.Index})
					x.stop = true
					return
				}
			}
			x.Sim.Probe("c12-atomic-nohooks-judged")
		}
		return
	}
	ns := x.Plan.Namespace
	var pre, post string
	var cs *ChartSpec
	rc := x.revChartBefore(so)
	switch op.Op {
	case "install":
		pre, post = "pre-install", "post-install"
		cs = &x.Plan.Charts[op.Chart]
	case "upgrade":
		pre, post = "pre-upgrade", "post-upgrade"
		cs = &x.Plan.Charts[op.Chart]
	case "rollback":
		pre, post = "pre-rollback", "post-rollback"
		t := op.Revision
		if t == 0 {
			t = so.Before.MaxRev() - 1
		}
		c, ok := rc[t]
		if !ok {
			return
		}
		cs = &x.Plan.Charts[c]
	case "uninstall":
		pre, post = "pre-delete", "post-delete"
		c, ok := rc[so.Before.MaxRev()]
		if !ok {
			return
		}
		if lr := so.Before.Rev(so.Before.MaxRev()); lr != nil && lr.Status == "uninstalled" {
			return // a second uninstall only purges the records; no event fires
		}
		cs = &x.Plan.Charts[c]
	default:
		return
	}
	opName := op.Op
	fail := func(clause, cause, detail string) {
		x.Violate(Violation{P, clause, opName, cause, detail, so.Index})
		x.stop = true
	}
	// every hook identity of this chart version
	hookIDs := map[string]*ResSlot{}
	for i := range cs.Slots {
		if cs.Slots[i].Hook != nil {
			hookIDs[slotID(&cs.Slots[i], ns).String()] = &cs.Slots[i]
		}
	}
	mids, _ := ChartIDs(cs, nil, ns)
	manifestIDs := idSet(mids)
	// did the operation get as far as running hooks? (it must have created/loaded its revision)
	started := false
	for _, q := range r.Reqs {
		if q.Mutating() && q.ID != nil {
			started = true
		}
	}
	var posts []*ReqRecord
	for _, q := range r.Reqs {
		if q.Verb == "POST" && q.ID != nil && hookIDs[q.ID.String()] != nil && q.SeqOut != 0 {
			posts = append(posts, q)
		}
	}
	x.Res.Checks++
	if op.NoHooks {
		if len(posts) > 0 {
			fail("disabled-hooks-not-created", "nohooks", fmt.Sprintf("hook %s was created although hooks are disabled", posts[0].ID))
		}
		return
	}
	if !started && len(posts) == 0 {
		return // refused before doing anything (name in use, no deployed release, ...)
	}
	// a rejected operation that never reached the hook phase is not judged
	preList, postList := hooksFor(cs, pre, ns), hooksFor(cs, post, ns)
	// the WATCH answer for each POST
	watchOf := func(p *ReqRecord) *ReqRecord {
		for _, q := range r.Reqs {
			if q.Verb == "WATCH" && q.SeqIn > p.SeqOut && strings.Contains(q.Path, p.ID.Kind+"/"+p.ID.Name) {
				return q
			}
		}
		return nil
	}
	hookFailed := func(p *ReqRecord) bool {
		if p.Status != 201 {
			return true
		}
		w := watchOf(p)
		return w == nil || w.Status != 200
	}
	// walk the expected sequence
	x.Res.Checks += 4
	idx := 0
	failedPhase := ""
	var failedAt *ReqRecord
	outcome := map[string]string{} // id -> "succeeded" / "failed" / "create-failed" of its last execution
	expectPhase := func(phase string, list []hookExp) bool {
		for _, h := range list {
			if idx >= len(posts) {
				// the phase was not reached or not completed: legitimate only if the operation failed for another reason
				if r.OK {
					fail("all-hooks-run", "none", fmt.Sprintf("%s hook %s was never created although the operation succeeded", phase, h.id))
					return false
				}
				// an uninstall that went through with the delete event (the release ends uninstalled or purged) fired
				// post-delete: its hooks run even when the operation reports an error for another reason (e.g. the wait)
				if op.Op == "uninstall" && phase == post {
					lastAfter := so.After.Rev(so.After.MaxRev())
					if lastAfter == nil || lastAfter.Status == "uninstalled" {
						fail("all-hooks-run", "release-deleted-with-error", fmt.Sprintf("post-delete hook %s was never created although the release was deleted (the uninstall reported: %s)", h.id, trunc(r.Err, 120)))
						return false
					}
				}
				return false
			}
			p := posts[idx]
			if p.ID.String() != h.id.String() {
				fail("weight-order", "none", fmt.Sprintf("%s: expected hook %s (weight %d) to be created next, saw %s; expected order %s", phase, h.id.Name, hookWeight(h.slot), p.ID.Name, hookNames(list)))
				return false
			}
			// one at a time: the previous hook completed before this one is created
			if idx > 0 {
				prev := posts[idx-1]
				if w := watchOf(prev); w != nil && w.SeqOut > p.SeqIn {
					fail("one-at-a-time", "none", fmt.Sprintf("hook %s was created before the wait for %s had returned", p.ID.Name, prev.ID.Name))
					return false
				}
			}
			// before-hook-creation (the default)
			if h.slot.Hook.Policies == nil || hasStr(h.slot.Hook.Policies, "before-hook-creation") {
				var lo uint64
				if idx > 0 {
					lo = posts[idx-1].SeqIn
				}
				found := false
				for _, q := range r.Reqs {
					if q.Verb == "DELETE" && q.ID != nil && q.ID.String() == h.id.String() && q.SeqIn > lo && q.SeqOut != 0 && q.SeqOut < p.SeqIn {
						found = true
					}
				}
				if !found {
					fail("before-hook-creation", "none", fmt.Sprintf("hook %s has the before-hook-creation policy but no DELETE preceded its creation", h.id.Name))
					return false
				}
				x.Sim.Probe("before-hook-creation-delete")
			}
			idx++
			if hookFailed(p) {
				if p.Status != 201 {
					outcome[h.id.String()] = "create-failed"
				} else {
					outcome[h.id.String()] = "failed"
				}
				failedPhase = phase
				failedAt = p
				return false
			}
			outcome[h.id.String()] = "succeeded"
		}
		return true
	}
	okPre := expectPhase(pre, preList)
	if len(x.Res.Violations) > 0 {
		return
	}
	if okPre {
		expectPhase(post, postList)
		if len(x.Res.Violations) > 0 {
			return
		}
	}
	if idx < len(posts) {
		cause := "none"
		if failedPhase != "" {
			cause = "after-" + failedPhase + "-failure"
		}
		fail("no-extra-hooks", cause, fmt.Sprintf("hook %s was created although it should not run (expected %s then %s)", posts[idx].ID.Name, hookNames(preList), hookNames(postList)))
		return
	}
	if failedPhase != "" {
		x.Sim.Probe("hook-failed:" + failedPhase)
		if r.OK {
			fail("hook-failure-fails-operation", failedPhase, fmt.Sprintf("%s hook %s failed but the operation reported success", failedPhase, failedAt.ID.Name))
			return
		}
		if failedPhase == pre {
			for _, q := range r.Reqs {
				if q.Mutating() && q.ID != nil && manifestIDs[q.ID.String()] && q.SeqIn > failedAt.SeqIn {
					fail("pre-hook-gates-resources", failedPhase, fmt.Sprintf("%s %s was sent after pre-hook %s failed", q.Verb, q.Path, failedAt.ID.Name))
					return
				}
			}
			x.Sim.Probe("pre-hook-gated")
		}
	}
	// delete policies: existence after the event
	for _, id := range sortedKeys(outcome) {
		s := hookIDs[id]
		oc := outcome[id]
		if oc == "create-failed" {
			continue
		}
		want := true
		if oc == "succeeded" && hasStr(s.Hook.Policies, "hook-succeeded") {
			want = false
		}
		if oc == "failed" && hasStr(s.Hook.Policies, "hook-failed") {
			want = false
		}
		// a later failure in the same phase leaves the not-yet-finished bookkeeping alone; only hooks that ran are judged
		_, exists := so.After.Cluster[id]
		if exists != want {
			dc := oc
			if failedAt != nil && failedAt.Status != 201 {
				dc += ":later-hook-create-rejected"
			}
			fail("delete-policy", dc, fmt.Sprintf("hook %s %s with policies %v: exists=%v, expected exists=%v", s.Name, oc, s.Hook.Policies, exists, want))
			return
		}
		x.Sim.Probe("delete-policy-checked")
	}
	// hooks never part of the manifest
	if c := createdRev(so); c != 0 {
		for _, id := range ManifestIDs(so.After.Rev(c).Manifest, ns) {
			if hookIDs[id.String()] != nil {
				fail("hooks-not-in-manifest", "none", fmt.Sprintf("hook %s appears in the manifest of revision %d", id, c))
				return
			}
		}
	}
}

func hookNames(l []hookExp) string {
	var n []string
	for _, h := range l {
		n = append(n, fmt.Sprintf("%s(w%d)", h.slot.Name, hookWeight(h.slot)))
	}
	return "[" + strings.Join(n, " ") + "]"
}

func (x *Exec) revChartBefore(so *StepObs) map[int]int {
	return x.revChart()
}

func baseC12(g *Gen, seed, index uint64) *Plan {
	p := &Plan{Check: "C12", Seed: seed, Index: index, Namespace: "ns1", Release: "rel", ClientTOs: 30}
	p.Backend = g.Backend()
	co := g.SwarmChartOpts()
	co.Hooks = true
	co.Cond = false
	co.Subcharts = false
	co.MaxRes = 1 + g.N(3)
	p.Charts = g.ChartFamily(co)
	// more hooks, sharing events so that ordering matters
	for ci := range p.Charts {
		extra := g.N(4)
		ev := allHookEvents[g.N(len(allHookEvents))]
		for k := 0; k < extra; k++ {
			h := g.newHook(100+10*ci+k, &co)
			if g.Chance(0.3) {
				// weights are decimal integers however they are padded: "08" is eight, "010" is ten
				w := []int{8, 9, 10, -9, 7, 11}[g.N(6)]
				h.Hook.Weight = &w
				h.Hook.PadWeight = 2 + g.N(2)
			}
			if g.Chance(0.7) {
				h.Hook.Events = []string{ev}
				if g.Chance(0.3) {
					h.Hook.Events = append(h.Hook.Events, strings.Replace(ev, "pre-", "post-", 1))
					h.Hook.Events = dedupStr(h.Hook.Events)
				}
			}
			p.Charts[ci].Slots = append(p.Charts[ci].Slots, h)
		}
	}
	ho := &HistoryOpts{NVersions: len(p.Charts), Flags: true, WaitP: 0.3, AtomicP: 0, FirstInst: 1, NoTakeOwner: true}
	n := 1 + g.Weighted(3, 4, 3, 2)
	for i := 0; i < n; i++ {
		op := g.Op(i, ho)
		op.Atomic = false
		op.Force = false
		op.Values = nil
		p.Steps = append(p.Steps, Step{Op: &op})
	}
	p.Policy = "uniform"
	p.Schedule = g.Schedule(32)
	return p
}

func dedupStr(xs []string) []string {
	seen := map[string]bool{}
	var out []string
	for _, x := range xs {
		if !seen[x] {
			seen[x] = true
			out = append(out, x)
		}
	}
	return out
}

func genC12(seed, index uint64, tier string) *Plan {
	g := NewGen(seed, index, 12)
	p := baseC12(g, seed, index)
	p.Variant = "clean"
	if g.Chance(0.6) {
		p.Variant = "hook-fail"
		si := g.N(len(p.Steps))
		p.Steps[si].Faults = []FaultSpec{{Kind: FHookFail, Pred: &Pred{Nth: 1 + g.N(4)}}}
	}
	if p.Variant == "clean" && len(p.Steps) > 1 && g.Chance(0.15) {
		// upgrade --atomic --no-hooks that the cluster refuses: the automatic rollback must not run hooks either
		for si := len(p.Steps) - 1; si > 0; si-- {
			if p.Steps[si].Op.Op == "upgrade" {
				p.Variant = "atomic-nohooks"
				p.Steps[si].Op.Atomic = true
				p.Steps[si].Op.NoHooks = true
				p.Steps[si].Faults = []FaultSpec{{Kind: FReject, Code: 403, Pred: &Pred{Storage: boolp(false), Mutating: boolp(true), PathHas: "/namespaces/", Nth: 1 + g.N(2)}}}
				break
			}
		}
	}
	if p.Variant == "clean" && g.Chance(0.15) {
		// --no-hooks given on the command line (pkg/cmd): the flag has to reach the action that finally runs
		si := g.N(len(p.Steps))
		o := p.Steps[si].Op
		cli := &OpSpec{Op: "cli", Chart: o.Chart, NoHooks: true, TimeoutS: o.TimeoutS}
		switch o.Op {
		case "install":
			cli.CLIKind = g.Pick("install", "upgrade-install")
		case "upgrade":
			cli.CLIKind = g.Pick("upgrade", "upgrade-install")
		case "rollback":
			cli.CLIKind = "rollback"
		case "uninstall":
			cli.CLIKind = "uninstall"
		}
		switch cli.CLIKind {
		case "install":
			cli.CLI = []string{"install", "rel", "@CHART@", "-n", "ns1", "--no-hooks"}
		case "upgrade":
			cli.CLI = []string{"upgrade", "rel", "@CHART@", "-n", "ns1", "--no-hooks"}
		case "upgrade-install":
			cli.CLI = []string{"upgrade", "rel", "@CHART@", "-n", "ns1", "--install", "--no-hooks"}
		case "rollback":
			cli.CLI = []string{"rollback", "rel", fmt.Sprint(o.Revision), "-n", "ns1", "--no-hooks"}
		case "uninstall":
			cli.CLI = []string{"uninstall", "rel", "-n", "ns1", "--no-hooks"}
			if o.KeepHistory {
				cli.CLI = append(cli.CLI, "--keep-history")
			}
		}
		if cli.CLIKind != "" {
			p.Variant = "cli-nohooks"
			p.Steps[si].Op = cli
		}
	}
	if p.Variant == "clean" && g.Chance(0.4) {
		// the wait for the release's own resources times out. (Timeouts of the wait that follows the DELETE of a hook
		// object are outside this property's fault space, "every single hook failing in turn", and are not injected.)
		p.Variant = "wait-fail"
		si := g.N(len(p.Steps))
		p.Steps[si].Op.Wait = true
		p.Steps[si].Faults = []FaultSpec{{Kind: FNotReady, Pred: &Pred{Nth: 1, PathNot: "/hk-"}}}
	}
	return p.Clone()
}

func sweepBaseC12(seed, index uint64, tier string) *Plan {
	g := NewGen(seed, index, 112)
	p := baseC12(g, seed, index)
	p.Variant = "sweep-base"
	return p.Clone()
}

func sweepKindsC12(p *Plan, step int, call string) []FaultSpec {
	if strings.HasPrefix(call, "WATCH ") {
		return []FaultSpec{{Kind: FHookFail}}
	}
	if (strings.HasPrefix(call, "WAIT ") || strings.HasPrefix(call, "WAITDEL ")) && !strings.Contains(call, "/hk-") {
		return []FaultSpec{{Kind: FNotReady}}
	}
	return nil
}
