package sim

// C17 — provenance verification over a faulty channel (narrow claim), and the
// transit part of C20: damaged downloads are answered with an error.

import (
	"bytes"
	"crypto/sha256"
	"encoding/hex"
	"fmt"
	"io"
	"os"
	"path/filepath"
	"strings"
	"sync"
	"testing"
	"testing/synctest"
	"time"

	"golang.org/x/crypto/openpgp"           //nolint
	"golang.org/x/crypto/openpgp/clearsign" //nolint

	"helm.sh/helm/v4/pkg/action"
	"helm.sh/helm/v4/pkg/chart/v2/loader"
	"helm.sh/helm/v4/pkg/cli"
	"helm.sh/helm/v4/pkg/downloader"
	"helm.sh/helm/v4/pkg/getter"
	"helm.sh/helm/v4/pkg/provenance"
	"helm.sh/helm/v4/pkg/repo"
)

type C17Spec struct {
	Keyring    string `json:"keyring"`              // signer | signer+other | other | empty
	Target     string `json:"target,omitempty"`     // which artefact is damaged in transit: "", chart, prov
	Corrupt    string `json:"corrupt,omitempty"`    // bitflip byte truncate prefix suffix empty
	Pos        int    `json:"pos,omitempty"`        // where
	Rename     bool   `json:"rename,omitempty"`     // the archive is served under another file name
	RenameTo   string `json:"renameTo,omitempty"`   // "" = an unrelated name; "case" / "ext-case" = the listed name in another letter case
	SwapProv   bool   `json:"swapProv,omitempty"`   // the .prov of another chart is served
	Strategy   string `json:"strategy,omitempty"`   // always | ifpossible
	SignerWho  string `json:"signerWho,omitempty"`  // signer | other: who actually signed
	SecondSign bool   `json:"secondSign,omitempty"` // prov signed by the other key although the keyring trusts only signer
	Multi      string `json:"multi,omitempty"`      // "" | "listed": the provenance lists a second archive too; "swapped": … and that archive's bytes are served under the first one's name
	ReadError  bool   `json:"readError,omitempty"`  // after an accepted download the archive is verified again while reading it fails with an I/O error
	Rekey      string `json:"rekey,omitempty"`      // the keyring FILE is rewritten with this content after the first download; the chart is then downloaded again
	Via        string `json:"via,omitempty"`        // "" = ChartDownloader.DownloadTo; "locate" = ChartPathOptions.LocateChart with Verify (what install --verify runs), both attempts sharing the repository cache
}

type pgpKeys struct {
	signer, other *openpgp.Entity
}

var (
	keysOnce sync.Once
	keys     pgpKeys
	signed   map[string][2][]byte // chart name + signer -> {archive, prov}
	signedMu sync.Mutex
)

func testKeys() pgpKeys {
	keysOnce.Do(func() {
		var err error
		keys.signer, err = openpgp.NewEntity("Verif Signer", "", "signer@verif.example", nil)
		if err != nil {
			panic(err)
		}
		keys.other, err = openpgp.NewEntity("Verif Other", "", "other@verif.example", nil)
		if err != nil {
			panic(err)
		}
		signed = map[string][2][]byte{}
	})
	return keys
}

// signedChart returns the archive of the named chart and a provenance file signed by who.
func signedChart(name, who string) (archive, prov []byte) {
	k := testKeys()
	signedMu.Lock()
	defer signedMu.Unlock()
	if v, ok := signed[name+"|"+who]; ok {
		return v[0], v[1]
	}
	archive = chartArchive(name)
	dir, err := os.MkdirTemp("", "verif-sign-")
	if err != nil {
		panic(err)
	}
	defer os.RemoveAll(dir)
	path := filepath.Join(dir, name+"-1.0.0.tgz")
	os.WriteFile(path, archive, 0o644)
	ent := k.signer
	if who == "other" {
		ent = k.other
	}
	s := &provenance.Signatory{Entity: ent, KeyRing: openpgp.EntityList{ent}}
	txt, err := s.ClearSign(path)
	if err != nil {
		panic(err)
	}
	prov = []byte(txt)
	signed[name+"|"+who] = [2][]byte{archive, prov}
	return
}

func writeKeyring(path, which string) {
	k := testKeys()
	var buf bytes.Buffer
	switch which {
	case "signer":
		k.signer.Serialize(&buf)
	case "signer+other":
		k.other.Serialize(&buf)
		k.signer.Serialize(&buf)
	case "other":
		k.other.Serialize(&buf)
	case "empty":
	}
	os.WriteFile(path, buf.Bytes(), 0o644)
}

// ExecuteNet dispatches the netsim scenarios that are not C19.
func ExecuteNet(t *testing.T, plan *Plan) *RunResult {
	if plan.Net != nil && plan.Net.C17 != nil {
		return ExecuteC17(t, plan)
	}
	return ExecuteC20b(t, plan)
}

func ExecuteC17(t *testing.T, plan *Plan) *RunResult {
	res := &RunResult{Check: plan.Check, Seed: plan.Seed, Index: plan.Index, Variant: plan.Variant, FaultsFired: map[string]int{}, Probes: map[string]int{}}
	t0 := time.Now()
	defer func() { res.WallMs = float64(time.Since(t0).Microseconds()) / 1000 }()
	defer func() {
		if r := recover(); r != nil {
			msg := fmt.Sprint(r)
			if strings.Contains(msg, "deadlock") {
				return
			}
			res.Infra = "panic in netsim harness: " + msg
		}
	}()
	c := plan.Net.C17
	dir, err := os.MkdirTemp("", "verif-c17-")
	if err != nil {
		res.Infra = err.Error()
		return res
	}
	defer os.RemoveAll(dir)
	who := c.SignerWho
	if who == "" {
		who = "signer"
	}
	archive, prov := signedChart("mychart0", who)
	otherArchive, otherProv := signedChart("mychart1", who)
	servedArchive := archive
	if c.Multi != "" {
		// a provenance file may list several archives: each name vouches for its own digest only
		if block, _ := clearsign.Decode(prov); block != nil {
			osum := sha256.Sum256(otherArchive)
			body := append([]byte{}, block.Plaintext...)
			body = append(bytes.TrimRight(body, "\n"), []byte("\n  mychart1-1.0.0.tgz: sha256:"+hex.EncodeToString(osum[:])+"\n")...)
			ent := testKeys().signer
			if who == "other" {
				ent = testKeys().other
			}
			var out bytes.Buffer
			if w, err := clearsign.Encode(&out, ent.PrivateKey, nil); err == nil {
				w.Write(body)
				w.Close()
				prov = out.Bytes()
			}
		}
		if c.Multi == "swapped" {
			servedArchive = otherArchive
		}
		if c.Multi == "two-blocks" {
			// a block signed by an UNTRUSTED key that vouches for other bytes, followed by the genuine block: the file as a
			// whole proves nothing about the served bytes
			_, genuine := signedChart("mychart0", who)
			if block, _ := clearsign.Decode(genuine); block != nil {
				osum := sha256.Sum256(otherArchive)
				asum := sha256.Sum256(archive)
				forgedBody := bytes.Replace(block.Plaintext, []byte(hex.EncodeToString(asum[:])), []byte(hex.EncodeToString(osum[:])), 1)
				forger := testKeys().other
				if who == "other" {
					forger = testKeys().signer
				}
				var out bytes.Buffer
				if w, err := clearsign.Encode(&out, forger.PrivateKey, nil); err == nil {
					w.Write(forgedBody)
					w.Close()
					prov = append(append(out.Bytes(), '\n'), genuine...)
					servedArchive = otherArchive
				}
			}
		}
	}
	keyring := filepath.Join(dir, "pubring.gpg")
	writeKeyring(keyring, c.Keyring)
	served := "mychart0-1.0.0.tgz"
	if c.Rename {
		served = "renamed-1.0.0.tgz"
		switch c.RenameTo {
		case "case":
			served = "MyChart0-1.0.0.tgz"
		case "ext-case":
			served = "mychart0-1.0.0.TGZ"
		case "targz":
			served = "mychart0-1.0.0.tar.gz" // not the name the provenance lists, and not a .tgz: still to be verified, not waved through
		case "noext":
			served = "mychart0-1.0.0"
		}
	}
	var opErr error
	var ver *provenance.Verification
	var destfile string
	panicked := ""
	var opErr2 error
	var destfile2, panicked2 string
	var got1, got2 []byte
	secondRan := false
	synctest.Test(t, func(t *testing.T) {
		n := NewNetSim()
		defer n.Close()
		base := "https://repo1.example.com/charts/"
		n.Artefacts["chart"] = servedArchive
		n.Artefacts["prov"] = prov
		if c.SwapProv {
			n.Artefacts["prov"] = otherProv
		}
		n.Artefacts["index"] = indexYAML("mychart0", base+served)
		n.Routes[routeKey("https://repo1.example.com/index.yaml")] = &Route{Artefact: "index"}
		cr := &Route{Artefact: "chart"}
		pr := &Route{Artefact: "prov"}
		switch c.Target {
		case "chart":
			cr.Corrupt, cr.Pos = c.Corrupt, c.Pos
		case "prov":
			pr.Corrupt, pr.Pos = c.Corrupt, c.Pos
		}
		n.Routes[routeKey(base+served)] = cr
		n.Routes[routeKey(base+served+".prov")] = pr
		spec := &NetSpec{Repos: []RepoSpec{{Name: "repo0", URL: "https://repo1.example.com", Chart: "mychart0"}}}
		cfg, cache := writeRepoFiles(dir, n, spec, false)
		os.WriteFile(filepath.Join(cache, "repo0-index.yaml"), n.Artefacts["index"], 0o644)
		dl := downloader.ChartDownloader{Out: io.Discard, Getters: netProviders(n), RepositoryConfig: cfg, RepositoryCache: cache, Keyring: keyring, Verify: downloader.VerifyAlways}
		if c.Strategy == "ifpossible" {
			dl.Verify = downloader.VerifyIfPossible
		}
		dest := filepath.Join(dir, "dest")
		os.MkdirAll(dest, 0o755)
		download := func(dest string) (string, *provenance.Verification, error) {
			return dl.DownloadTo("repo0/mychart0", "1.0.0", dest)
		}
		if c.Via == "locate" {
			// the route install/upgrade/template --verify take: the archive lands in the repository cache, which a retry shares
			getter.VerifSetDefaultTransport(n.Transport)
			defer getter.VerifSetDefaultTransport(nil)
			settings := cli.New()
			settings.RepositoryConfig = cfg
			settings.RepositoryCache = cache
			settings.PluginsDirectory = filepath.Join(dir, "no-plugins")
			download = func(string) (string, *provenance.Verification, error) {
				cpo := action.ChartPathOptions{Version: "1.0.0", Verify: true, Keyring: keyring}
				wd, _ := os.Getwd()
				os.Chdir(dir)
				defer os.Chdir(wd)
				f, err := cpo.LocateChart("repo0/mychart0", settings)
				return f, nil, err
			}
		}
		func() {
			defer func() {
				if r := recover(); r != nil {
					panicked = fmt.Sprint(r)
				}
			}()
			destfile, ver, opErr = download(dest)
			if opErr == nil {
				got1, _ = os.ReadFile(destfile)
			}
		}()
		if c.Rekey != "" && panicked == "" {
			// trust changes between two operations of one process: same keyring path, other content
			writeKeyring(keyring, c.Rekey)
			dest2 := filepath.Join(dir, "dest2")
			os.MkdirAll(dest2, 0o755)
			func() {
				defer func() {
					if r := recover(); r != nil {
						panicked2 = fmt.Sprint(r)
					}
				}()
				destfile2, _, opErr2 = download(dest2)
				if opErr2 == nil {
					got2, _ = os.ReadFile(destfile2)
				}
			}()
			secondRan = true
		}
	})
	violate := func(clause, cause, detail string) {
		res.Violations = append(res.Violations, Violation{"C17", clause, "download-verify", cause, detail, 0})
	}
	cause := fmt.Sprintf("keyring=%s,target=%s:%s,rename=%v%s,swap=%v,signedBy=%s", c.Keyring, c.Target, c.Corrupt, c.Rename, c.RenameTo, c.SwapProv, who)
	if c.Via != "" {
		cause += ",via=" + c.Via
		res.Probes["via-"+c.Via]++
		if opErr == nil && panicked == "" {
			res.Probes["via-"+c.Via+"-accepted"]++
		}
	}
	if c.Multi != "" {
		cause += ",multi=" + c.Multi
	}
	res.Checks += 3
	sum := sha256.Sum256(archive)
	wantHash := "sha256:" + hex.EncodeToString(sum[:])
	trusted := (who == "signer" && (c.Keyring == "signer" || c.Keyring == "signer+other")) || (who == "other" && (c.Keyring == "other" || c.Keyring == "signer+other"))
	intact := c.Target == "" && !c.Rename && !c.SwapProv && c.Multi != "swapped" && c.Multi != "two-blocks"
	accepted := opErr == nil && panicked == ""
	if panicked != "" {
		violate("no-panic", cause, "verification panicked: "+trunc(panicked, 300))
	}
	if c.Strategy != "ifpossible" {
		if accepted {
			got := got1
			switch {
			case !bytes.Equal(got, archive):
				violate("accept-only-untampered", cause, "download was accepted although the archive bytes differ from the signed original")
			case !trusted:
				violate("accept-only-trusted-key", cause, "download was accepted although the signer's key is not in the keyring")
			case c.Rename:
				violate("accept-only-matching-name", cause, "download was accepted although the archive was served under a file name the provenance does not list")
			case c.SwapProv:
				violate("accept-only-own-provenance", cause, "download was accepted with the provenance file of another chart")
			case c.Via == "locate":
				// (LocateChart returns a path only)
			case ver == nil || ver.FileHash != wantHash:
				h := "<nil>"
				if ver != nil {
					h = ver.FileHash
				}
				violate("verification-reports-hash", cause, fmt.Sprintf("accepted, but the reported file hash %s is not the digest of the archive %s", h, wantHash))
			}
			res.Probes["accepted"]++
		} else {
			res.Probes["rejected"]++
			if intact && trusted {
				violate("intact-trusted-passes", cause, fmt.Sprintf("an untampered chart signed by a trusted key was rejected: %v", opErr))
			}
		}
	} else {
		// --verify on dependency build uses this strategy: a missing provenance file is tolerated, but when
		// one is served (always, here) a failed verification must still be an error
		if accepted {
			got, _ := os.ReadFile(destfile)
			switch {
			case !bytes.Equal(got, archive):
				violate("accept-only-untampered", cause+",strategy=ifpossible", "download was accepted although the archive bytes differ from the signed original")
			case !trusted:
				violate("accept-only-trusted-key", cause+",strategy=ifpossible", "download was accepted although the signer's key is not in the keyring")
			case c.Rename:
				violate("accept-only-matching-name", cause+",strategy=ifpossible", "download was accepted although the archive was served under a file name the provenance does not list")
			case c.SwapProv:
				violate("accept-only-own-provenance", cause+",strategy=ifpossible", "download was accepted with the provenance file of another chart")
			}
		}
		if intact && trusted && !accepted {
			violate("intact-trusted-passes", cause, fmt.Sprintf("an untampered chart signed by a trusted key was rejected: %v", opErr))
		}
		res.Probes["ifpossible"]++
	}
	if c.ReadError && opErr == nil && panicked == "" && destfile != "" {
		// a disk that returns an I/O error while the archive is hashed: the bytes cannot be vouched for
		res.Checks++
		os.Remove(destfile)
		if err := os.Symlink("/proc/self/mem", destfile); err == nil {
			var verr error
			vpan := ""
			func() {
				defer func() {
					if r := recover(); r != nil {
						vpan = fmt.Sprint(r)
					}
				}()
				_, verr = downloader.VerifyChart(destfile, keyring)
			}()
			res.FaultsFired["disk-read-error"]++
			if vpan != "" {
				violate("no-panic", cause+",read-error", "verification panicked: "+trunc(vpan, 300))
			} else if verr == nil {
				violate("accept-only-untampered", cause+",read-error", "verification succeeded although reading the archive failed with an I/O error (its bytes were never compared with the signed digest)")
			}
		}
	}
	if secondRan {
		res.Checks += 2
		res.Probes["keyring-rewritten"]++
		trusted2 := (who == "signer" && (c.Rekey == "signer" || c.Rekey == "signer+other")) || (who == "other" && (c.Rekey == "other" || c.Rekey == "signer+other"))
		accepted2 := opErr2 == nil && panicked2 == ""
		cause2 := cause + ",rekey=" + c.Rekey
		if panicked2 != "" {
			violate("no-panic", cause2, "verification panicked: "+trunc(panicked2, 300))
		}
		if accepted2 && !trusted2 {
			violate("accept-only-trusted-key", cause2, "after the keyring file was rewritten without the signer's key, a second download of the chart was still accepted")
		}
		if accepted2 && trusted2 {
			if !bytes.Equal(got2, archive) {
				violate("accept-only-untampered", cause2, "second download was accepted although the archive bytes differ from the signed original")
			}
		}
		if accepted2 && trusted2 {
			// a retry is judged like a first attempt: what was served has not changed
			switch {
			case c.Rename:
				violate("accept-only-matching-name", cause2, "second download was accepted although the archive was served under a file name the provenance does not list")
			case c.SwapProv:
				violate("accept-only-own-provenance", cause2, "second download was accepted with the provenance file of another chart")
			}
		}
		if !accepted2 && trusted2 && intact {
			violate("intact-trusted-passes", cause2, fmt.Sprintf("after the signer's key was added to the keyring file, an untampered chart was still rejected: %v", opErr2))
		}
		accepted = accepted && accepted2
	}
	if c.Target != "" {
		res.FaultsFired["transit-"+c.Corrupt]++
	}
	res.Outcome = fmt.Sprintf("c17 %s rekey=%s accepted=%v err=%q", cause, c.Rekey, accepted, trunc(fmt.Sprint(opErr), 100))
	res.Signature = bodyHash([]byte(fmt.Sprintf("%s|%v|%d", cause, accepted, c.Pos)))
	res.NonTrivial = true
	res.Events = 3
	// archive bytes (tar timestamps) and keys differ between processes: hash the logical outcome only
	res.EventHash = bodyHash([]byte(fmt.Sprintf("%s|%v|%v", cause, accepted, len(res.Violations))))
	return res
}

func genC17(seed, index uint64, tier string) *Plan {
	g := NewGen(seed, index, 17)
	p := &Plan{Check: "C17", Seed: seed, Index: index, Backend: "none"}
	c := &C17Spec{Keyring: g.Pick("signer", "signer", "signer+other", "other", "empty"), Strategy: "always", SignerWho: "signer"}
	if g.Chance(0.15) {
		c.SignerWho = "other"
	}
	switch g.Weighted(3, 4, 4, 1, 1) {
	case 0:
	case 1:
		c.Target = "chart"
	case 2:
		c.Target = "prov"
	case 3:
		c.Rename = true
		c.RenameTo = g.Pick("", "case", "ext-case", "targz", "noext")
	case 4:
		c.SwapProv = true
	}
	if c.Target != "" {
		c.Corrupt = g.Pick("bitflip", "bitflip", "byte", "truncate", "prefix", "suffix", "empty")
		c.Pos = g.N(1 << 20)
	}
	if g.Chance(0.3) {
		c.Strategy = "ifpossible"
	}
	if c.Target == "" && !c.Rename && !c.SwapProv && g.Chance(0.3) {
		c.Multi = g.Pick("listed", "swapped", "swapped", "two-blocks", "two-blocks")
		if c.Multi == "two-blocks" {
			c.Keyring, c.SignerWho = "signer", "signer" // the first block's key must be one the keyring does not hold
		}
	}
	if g.Chance(0.25) {
		c.Rekey = g.Pick("signer", "other", "empty", "signer+other")
	} else if g.Chance(0.15) {
		c.ReadError = true
	}
	if c.Strategy == "always" && !c.ReadError && g.Chance(0.3) {
		c.Via = "locate"
	}
	if c.Rekey == "" && !c.ReadError && (c.Via == "locate" && g.Chance(0.6) || g.Chance(0.1)) {
		c.Rekey = c.Keyring // a plain retry, trust unchanged: the verdict must not depend on what the first attempt left behind
	}
	if c.Multi == "two-blocks" {
		c.Rekey = "" // (granting trust to the first block's key afterwards would make the file genuine)
	}
	p.Net = &NetSpec{Path: "c17", C17: c}
	p.Variant = "c17"
	return p.Clone()
}

// ---- C20 (transit slice) ----

func ExecuteC20b(t *testing.T, plan *Plan) *RunResult {
	res := &RunResult{Check: plan.Check, Seed: plan.Seed, Index: plan.Index, Variant: plan.Variant, FaultsFired: map[string]int{}, Probes: map[string]int{}}
	t0 := time.Now()
	defer func() { res.WallMs = float64(time.Since(t0).Microseconds()) / 1000 }()
	defer func() {
		if r := recover(); r != nil {
			msg := fmt.Sprint(r)
			if strings.Contains(msg, "deadlock") {
				return
			}
			res.Infra = "panic in netsim harness: " + msg
		}
	}()
	spec := plan.Net
	dir, err := os.MkdirTemp("", "verif-c20b-")
	if err != nil {
		res.Infra = err.Error()
		return res
	}
	defer os.RemoveAll(dir)
	archive, prov := signedChart("mychart0", "signer")
	if spec.Resign != nil {
		prov = resignDamaged(prov, *spec.Resign)
	}
	keyring := filepath.Join(dir, "pubring.gpg")
	writeKeyring(keyring, "signer")
	panicked, what := "", ""
	var opErr error
	var simElapsed time.Duration
	synctest.Test(t, func(t *testing.T) {
		start := time.Now()
		n := NewNetSim()
		defer n.Close()
		base := "https://repo1.example.com/charts/mychart0-1.0.0.tgz"
		n.Artefacts["chart"], n.Artefacts["prov"] = archive, prov
		n.Artefacts["index"] = indexYAML("mychart0", base)
		// the index as it was before the publisher's last update: same layout, the entry had no downloadable URL yet
		n.Artefacts["index:old"] = bytes.Replace(n.Artefacts["index"], []byte("    urls:\n    - \""+base+"\"\n"), []byte("    urls: []\n    digest: \"\"\n"), 1)
		routes := map[string]*Route{"index": {Artefact: "index"}, "chart": {Artefact: "chart"}, "prov": {Artefact: "prov"}}
		if spec.Transit != nil {
			tr := *spec.Transit
			tr.Artefact = routes[spec.Target].Artefact
			routes[spec.Target] = &tr
		}
		n.Routes[routeKey("https://repo1.example.com/index.yaml")] = routes["index"]
		n.Routes[routeKey(base)] = routes["chart"]
		n.Routes[routeKey(base+".prov")] = routes["prov"]
		rs := &NetSpec{Repos: []RepoSpec{{Name: "repo0", URL: "https://repo1.example.com", Chart: "mychart0"}}}
		cfg, cache := writeRepoFiles(dir, n, rs, false)
		func() {
			defer func() {
				if r := recover(); r != nil {
					panicked = fmt.Sprint(r)
				}
			}()
			what = "DownloadIndexFile"
			cr, err := repo.NewChartRepository(&repo.Entry{Name: "repo0", URL: "https://repo1.example.com"}, netProviders(n))
			if err != nil {
				opErr = err
				return
			}
			cr.CachePath = cache
			idx, err := cr.DownloadIndexFile()
			if err != nil {
				opErr = err
				return
			}
			what = "LoadIndexFile"
			ix, err := repo.LoadIndexFile(idx)
			if err != nil {
				opErr = err
				return
			}
			what = "IndexFile.Get"
			if _, err := ix.Get("mychart0", ""); err != nil {
				opErr = err
				return
			}
			what = "FindChartInRepoURL"
			if _, err := repo.FindChartInRepoURL("https://repo1.example.com", "mychart0", netProviders(n), repo.WithChartVersion("1.0.0")); err != nil {
				opErr = err
				return
			}
			what = "DownloadTo"
			dl := downloader.ChartDownloader{Out: io.Discard, Getters: netProviders(n), RepositoryConfig: cfg, RepositoryCache: cache, Keyring: keyring, Verify: downloader.VerifyAlways}
			dest := filepath.Join(dir, "dest")
			os.MkdirAll(dest, 0o755)
			file, _, err := dl.DownloadTo("repo0/mychart0", "", dest)
			if err != nil {
				opErr = err
				if file == "" {
					return
				}
			}
			what = "loader.Load"
			if _, err := loader.Load(file); err != nil && opErr == nil {
				opErr = err
			}
		}()
		simElapsed = time.Since(start)
	})
	cause := "intact"
	if spec.Resign != nil {
		cause = "prov:signed-after-" + spec.Resign.Kind
		res.FaultsFired["publisher-disk-"+spec.Resign.Kind]++
	}
	if spec.Transit != nil {
		cause = spec.Target + ":" + spec.Transit.Corrupt
		if spec.Transit.StallS > 0 {
			cause = spec.Target + ":stall"
		}
		res.FaultsFired["transit-"+cause]++
	}
	res.Checks += 2
	if panicked != "" {
		res.Violations = append(res.Violations, Violation{"C20", "no-panic", what, cause, fmt.Sprintf("%s panicked on a damaged download: %s", what, trunc(panicked, 400)), 0})
	}
	if simElapsed > 10*time.Minute {
		res.Violations = append(res.Violations, Violation{"C20", "no-hang", what, cause, fmt.Sprintf("%s took %v of simulated time", what, simElapsed), 0})
	}
	if spec.Transit == nil && spec.Resign == nil && opErr != nil {
		res.Violations = append(res.Violations, Violation{"C20", "intact-input-accepted", what, cause, fmt.Sprintf("undamaged download failed in %s: %v", what, opErr), 0})
	}
	if opErr != nil {
		res.Probes["damaged-download-rejected:"+what]++
	} else {
		res.Probes["download-ok"]++
	}
	res.SimSeconds = simElapsed.Seconds()
	res.Outcome = fmt.Sprintf("c20b %s last=%s err=%q", cause, what, trunc(fmt.Sprint(opErr), 100))
	res.Signature = bodyHash([]byte(fmt.Sprintf("%s|%s|%v", cause, what, opErr != nil)))
	res.NonTrivial = true
	res.Events = 4
	res.EventHash = bodyHash([]byte(fmt.Sprintf("%s|%s|%v|%v", cause, what, opErr != nil, len(res.Violations))))
	return res
}

// resignDamaged applies a disk fault to the signed text of a provenance file and signs the result with the trusted key:
// what a publisher whose copy was damaged before signing would upload. The signature is valid, the content is not.
func resignDamaged(prov []byte, f DiskFault) []byte {
	block, _ := clearsign.Decode(prov)
	if block == nil {
		return prov
	}
	body, ok := applyDiskFault(block.Plaintext, nil, f)
	if !ok {
		return prov
	}
	var out bytes.Buffer
	w, err := clearsign.Encode(&out, testKeys().signer.PrivateKey, nil)
	if err != nil {
		panic(err)
	}
	w.Write(body)
	w.Close()
	return out.Bytes()
}

func genC20b(g *Gen, seed, index uint64) *Plan {
	p := &Plan{Check: "C20", Seed: seed, Index: index, Backend: "none", Variant: "transit"}
	spec := &NetSpec{Path: "c20b"}
	if g.Chance(0.15) {
		// offsets: the signed text is a few hundred bytes; consecutive plans sweep the cut positions
		spec.Resign = &DiskFault{File: "prov", Kind: g.Pick("truncate", "truncate", "truncate", "zero-block", "dup-block", "bitflip"), Off: int(index/4) % 700, Len: 1 + g.N(40), Bit: g.N(8)}
		p.Net = spec
		p.Variant = "transit-resigned"
		return p.Clone()
	}
	if g.Chance(0.9) {
		spec.Target = g.Pick("index", "chart", "prov")
		tr := &Route{Pos: g.N(1 << 20)}
		if g.Chance(0.1) {
			tr.StallS = 100000
		} else {
			tr.Corrupt = g.Pick("bitflip", "bitflip", "byte", "truncate", "truncate", "prefix", "suffix", "empty")
			if spec.Target == "index" && g.Chance(0.3) {
				tr.Corrupt = "torn"
				tr.Pos = int(index / 4) // consecutive plans sweep the tear positions
			}
		}
		if spec.Target == "index" && tr.Corrupt == "truncate" {
			tr.Pos = int(index / 4) // consecutive plans sweep every cut position of the (short) index file
		}
		spec.Transit = tr
	}
	p.Net = spec
	return p.Clone()
}
