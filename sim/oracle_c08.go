package sim

// C08 — every rendered document is applied exactly once, in dependency order.

import (
	"fmt"
	"reflect"
	"strings"

	"sigs.k8s.io/yaml"

	releaseutil "helm.sh/helm/v4/pkg/release/util"
)

var knownHookEvents = map[string]bool{
	"pre-install": true, "post-install": true, "pre-delete": true, "post-delete": true, "pre-upgrade": true,
	"post-upgrade": true, "pre-rollback": true, "post-rollback": true, "test": true, "test-success": true,
}

// Independent of the exported table: a handful of dependency pairs every user relies on (a must be applied before b).
var c08MustPrecede = [][2]string{
	{"Namespace", "ConfigMap"}, {"Namespace", "Secret"}, {"Namespace", "ServiceAccount"}, {"Namespace", "Service"}, {"Namespace", "Deployment"}, {"Namespace", "Job"}, {"Namespace", "Pod"},
	{"ServiceAccount", "Pod"}, {"ServiceAccount", "Deployment"}, {"ServiceAccount", "Job"},
	{"Secret", "Pod"}, {"Secret", "Deployment"}, {"Secret", "Job"},
	{"ConfigMap", "Pod"}, {"ConfigMap", "Deployment"}, {"ConfigMap", "Job"},
	{"Service", "Deployment"},
	{"ClusterRole", "Deployment"},
	{"CustomResourceDefinition", "Widget"}, {"CustomResourceDefinition", "Gadget"},
	// kinds the table does not know come after every kind it knows
	{"ConfigMap", "Widget"}, {"Deployment", "Widget"}, {"Job", "Widget"}, {"Service", "Gadget"}, {"Pod", "Gadget"}, {"Namespace", "Gizmo"}, {"Job", "Alpha"}, {"Secret", "Zeta"},
}

func orderIndex(order []string, kind string) int {
	for i, k := range order {
		if k == kind {
			return i
		}
	}
	return len(order)
}

// slotDest says where the generator expects a document to end up.
func slotDest(s *ResSlot) string {
	if s.Kind == "" {
		return "nowhere"
	}
	if s.Hook == nil {
		return "manifest"
	}
	ev := strings.Join(s.Hook.Events, ",")
	if s.Hook.RawEvents != "" {
		ev = s.Hook.RawEvents
	}
	for _, e := range strings.Split(ev, ",") {
		if !knownHookEvents[strings.ToLower(strings.TrimSpace(e))] {
			return "nowhere"
		}
	}
	return "hooks"
}

func parseDoc(text string) map[string]interface{} {
	var m map[string]interface{}
	if err := yaml.Unmarshal([]byte(text), &m); err != nil {
		return nil
	}
	return m
}

func docMarker(m map[string]interface{}) string {
	l, _ := getMap(m, "metadata")["labels"].(map[string]interface{})
	return str(l[markerLabel])
}

func oracleC08(x *Exec, so *StepObs) {
	if so.After == nil || len(so.Results) != 1 {
		return
	}
	const P = "C08"
	r := so.Results[0]
	op := &r.Op
	ns := x.Plan.Namespace
	opName := op.Op
	fail := func(clause, cause, detail string) {
		x.Violate(Violation{P, clause, opName, cause, detail, so.Index})
		x.stop = true
	}
	if op.Op == "install" && r.Rel != nil && (r.OK || isDryOp(op)) {
		cs := &x.Plan.Charts[op.Chart]
		// ---- partition ----
		x.Res.Checks += 3
		manDocs := map[string][]map[string]interface{}{}
		var manOrder []map[string]interface{}
		for _, raw := range docSep.Split(r.Rel.Manifest, -1) {
			// strip "# Source:" and other comment lines
			if strings.TrimSpace(stripComments(raw)) == "" {
				continue
			}
			m := parseDoc(raw)
			if m == nil {
				fail("partition", "unparsable", "manifest contains a document that does not parse: "+trunc(raw, 200))
				return
			}
			mk := docMarker(m)
			manDocs[mk] = append(manDocs[mk], m)
			manOrder = append(manOrder, m)
		}
		hookDocs := map[string][]map[string]interface{}{}
		for _, h := range r.Rel.Hooks {
			m := parseDoc(h.Manifest)
			if m == nil {
				fail("partition", "unparsable", "hook manifest does not parse: "+trunc(h.Manifest, 200))
				return
			}
			hookDocs[docMarker(m)] = append(hookDocs[docMarker(m)], m)
		}
		expected := map[string]bool{}
		for i := range cs.Slots {
			s := &cs.Slots[i]
			if s.Kind == "" {
				continue
			}
			expected[s.Marker] = true
			dest := slotDest(s)
			nm, nh := len(manDocs[s.Marker]), len(hookDocs[s.Marker])
			wantM, wantH := 0, 0
			switch dest {
			case "manifest":
				wantM = 1
			case "hooks":
				wantH = 1
			}
			if nm != wantM || nh != wantH {
				fail("partition", dest+":"+s.Style+":sep="+cs.SepStyle[s.File], fmt.Sprintf("document %s (%s/%s, file %s) expected in %s: found %d time(s) in the manifest and %d time(s) in the hook list", s.Marker, s.Kind, s.Name, s.File, dest, nm, nh))
				return
			}
			want := parseDoc(strings.ReplaceAll(RenderSlot(*s, false), "\r\n", "\n"))
			if cs.Partials && want != nil {
				md := getMap(want, "metadata")
				l, _ := md["labels"].(map[string]interface{})
				l["verif/chart"] = cs.Name
			}
			var got map[string]interface{}
			if wantM == 1 {
				got = manDocs[s.Marker][0]
			} else if wantH == 1 {
				got = hookDocs[s.Marker][0]
			}
			if got != nil && !reflect.DeepEqual(want, got) {
				if a, _ := getMap(want, "metadata")["annotations"].(map[string]interface{}); a != nil && wantH == 1 {
					// is the only difference the final line break of a block scalar that ends the document?
					if v, ok := a["verif/embedded"].(string); ok && strings.HasSuffix(v, "\n") {
						a["verif/embedded"] = strings.TrimSuffix(v, "\n")
						if reflect.DeepEqual(want, got) {
							fail("unaltered", "hooks:final-block-scalar-loses-its-line-break", fmt.Sprintf("hook document %s (%s/%s) ends in a block scalar; the hook's manifest has the scalar without its final line break", s.Marker, s.Kind, s.Name))
							return
						}
					}
				}
				fail("unaltered", dest+":"+s.Style, fmt.Sprintf("document %s differs from what the template produced", s.Marker))
				return
			}
		}
		for mk := range manDocs {
			if !expected[mk] {
				fail("partition", "extra", fmt.Sprintf("manifest contains an unexpected document (marker %q)", mk))
				return
			}
		}
		for mk := range hookDocs {
			if !expected[mk] {
				fail("partition", "extra", fmt.Sprintf("hook list contains an unexpected document (marker %q)", mk))
				return
			}
		}
		if strings.Contains(r.Rel.Manifest, "NOTES-MARKER") || strings.Contains(r.Rel.Manifest, "verif.labels\"") {
			fail("partition", "notes-or-partial", "NOTES.txt or a partial ended up in the manifest")
			return
		}
		x.Sim.Probe("partition-checked")
		// ---- order ----
		x.Res.Checks++
		last, lastKind, lastPos := -1, "", -1
		closed := map[string]bool{} // kinds whose group has ended
		posInChart := map[string]int{}
		// original order = files in path order, documents in file order
		for i, mk := range chartDocOrder(cs) {
			posInChart[mk] = i
		}
		firstPos, lastPosOf := map[string]int{}, map[string]int{}
		for i, m := range manOrder {
			k := str(m["kind"])
			if _, ok := firstPos[k]; !ok {
				firstPos[k] = i
			}
			lastPosOf[k] = i
		}
		for _, pr := range c08MustPrecede {
			la, okA := lastPosOf[pr[0]]
			fb, okB := firstPos[pr[1]]
			if okA && okB && la > fb {
				fail("install-order", "dependency-pair", fmt.Sprintf("a %s is ordered after a %s in the manifest", pr[0], pr[1]))
				return
			}
		}
		for _, m := range manOrder {
			k := str(m["kind"])
			oi := orderIndex(releaseutil.InstallOrder, k)
			if oi < last {
				fail("install-order", "kind", fmt.Sprintf("kind %s follows kind %s in the manifest", k, lastKind))
				return
			}
			if k != lastKind {
				if closed[k] {
					fail("install-order", "kind-not-contiguous", fmt.Sprintf("documents of kind %s appear in more than one group (after %s)", k, lastKind))
					return
				}
				if lastKind != "" {
					closed[lastKind] = true
				}
			}
			pos := posInChart[docMarker(m)]
			if k == lastKind && pos < lastPos {
				fail("install-order", "stable", fmt.Sprintf("documents of kind %s are not in their original order", k))
				return
			}
			last, lastKind, lastPos = oi, k, pos
		}
	}
	if isDryOp(op) {
		return
	}
	// ---- per-kind barrier and exactly-once creation (real installs) ----
	if op.Op == "install" && !op.TakeOwnership {
		cs := &x.Plan.Charts[op.Chart]
		mids, _ := ChartIDs(cs, op.Values, ns)
		mset := idSet(mids)
		type grp struct {
			kind   string
			maxOut uint64
			minIn  uint64
		}
		var groups []*grp
		seen := map[string]int{}
		for _, q := range r.Reqs {
			if q.Verb != "POST" || q.ID == nil || !mset[q.ID.String()] {
				continue
			}
			seen[q.ID.String()]++
			out := q.SeqOut
			if out == 0 {
				out = ^uint64(0) // never answered (stalled, abandoned)
			}
			if len(groups) == 0 || groups[len(groups)-1].kind != q.ID.Kind {
				// a kind seen before must not reappear
				for _, g := range groups {
					if g.kind == q.ID.Kind {
						fail("kind-barrier", "interleaved", fmt.Sprintf("creation of kind %s resumed after kind %s had started", q.ID.Kind, groups[len(groups)-1].kind))
						return
					}
				}
				groups = append(groups, &grp{kind: q.ID.Kind, minIn: q.SeqIn, maxOut: out})
				continue
			}
			g := groups[len(groups)-1]
			if out > g.maxOut {
				g.maxOut = out
			}
		}
		x.Res.Checks += 2
		for id, n := range seen {
			if n > 1 && r.OK {
				fail("applied-once", "duplicate", fmt.Sprintf("%s was created %d times", id, n))
				return
			}
		}
		if r.OK && allAccepted(r) {
			for _, id := range mids {
				if seen[id.String()] != 1 {
					fail("applied-once", "missing", fmt.Sprintf("%s was created %d times by a successful install", id, seen[id.String()]))
					return
				}
			}
		}
		for i := 1; i < len(groups); i++ {
			if groups[i].minIn < groups[i-1].maxOut {
				fail("kind-barrier", "overlap", fmt.Sprintf("creation of kind %s started (event %d) before every %s had finished (event %d)", groups[i].kind, groups[i].minIn, groups[i-1].kind, groups[i-1].maxOut))
				return
			}
			if orderIndex(releaseutil.InstallOrder, groups[i].kind) < orderIndex(releaseutil.InstallOrder, groups[i-1].kind) {
				fail("install-order", "requests", fmt.Sprintf("kind %s was created after kind %s", groups[i].kind, groups[i-1].kind))
				return
			}
		}
		if len(groups) > 1 {
			x.Sim.Probe("barrier-checked")
		}
	}
	if op.Op == "uninstall" && len(so.Before.Ledger) > 0 {
		x.Res.Checks++
		lastRev := so.Before.Ledger[len(so.Before.Ledger)-1]
		mset := idSet(ManifestIDs(lastRev.Manifest, ns))
		last, lastKind := -1, ""
		var prevMaxOut uint64
		var curMaxOut uint64
		for _, q := range r.Reqs {
			if q.Verb != "DELETE" || q.ID == nil || !mset[q.ID.String()] {
				continue
			}
			oi := orderIndex(releaseutil.UninstallOrder, q.ID.Kind)
			if oi < last {
				fail("uninstall-order", "kind", fmt.Sprintf("kind %s deleted after kind %s", q.ID.Kind, lastKind))
				return
			}
			if q.ID.Kind != lastKind {
				prevMaxOut = curMaxOut
				curMaxOut = 0
			}
			if q.SeqIn < prevMaxOut {
				fail("kind-barrier", "uninstall-overlap", fmt.Sprintf("deletion of kind %s started before every %s had finished", q.ID.Kind, lastKind))
				return
			}
			if q.SeqOut > curMaxOut {
				curMaxOut = q.SeqOut
			}
			last, lastKind = oi, q.ID.Kind
		}
	}
}

func stripComments(s string) string {
	var out []string
	for _, l := range strings.Split(s, "\n") {
		if strings.HasPrefix(strings.TrimSpace(l), "#") {
			continue
		}
		out = append(out, l)
	}
	return strings.Join(out, "\n")
}

// chartDocOrder: markers in the order files sort by path and documents appear in files.
func chartDocOrder(cs *ChartSpec) []string {
	byFile := map[string][]string{}
	for _, s := range cs.Slots {
		byFile[s.File] = append(byFile[s.File], s.Marker)
	}
	var out []string
	for _, f := range sortedKeys(byFile) {
		out = append(out, byFile[f]...)
	}
	return out
}

// genC08: charts whose files hold many documents of many shapes; installs for
// real (barrier under scheduler-chosen interleavings) and as dry-run (partition
// with kinds the cluster does not know).
func genC08(seed, index uint64, tier string) *Plan {
	g := NewGen(seed, index, 8)
	p := &Plan{Check: "C08", Seed: seed, Index: index, Namespace: "ns1", Release: "rel", ClientTOs: 30}
	p.Backend = g.Backend()
	clientOnly := g.Chance(0.35)
	cs := ChartSpec{Name: "demo", Version: "1.0.0", Values: map[string]interface{}{"a": "x"}}
	kinds := []string{"ConfigMap", "Secret", "ServiceAccount", "Service", "Deployment", "Job", "ClusterRole", "Widget", "Gadget", "Widget", "Gadget", "Pod", "Namespace"}
	files := []string{"a.yaml", "b.yaml", "z/c.yaml", "m.yaml"}
	if g.Chance(0.3) {
		// file names that sort differently byte-wise and case-folded: the order of same-kind documents follows the byte order
		files = []string{"a.yaml", "B.yaml", "Z/c.yaml", "m.yaml", "web_config.yaml", "webConfig.yaml", "Zeta.yaml"}
	} else if g.Chance(0.3) {
		// only a file whose OWN name starts with an underscore is a partial; a directory so named holds ordinary templates
		files = []string{"a.yaml", "_gen/b.yaml", "z/_parts/c.yaml", "m.yaml"}
	}
	n := 2 + g.N(10)
	counters := map[string]int{}
	for i := 0; i < n; i++ {
		k := kinds[g.N(len(kinds))]
		if clientOnly && g.Chance(0.2) {
			k = g.Pick("Gizmo", "Alpha", "Zeta")
		}
		counters[k]++
		s := ResSlot{Kind: k, Name: fmt.Sprintf("%s%d", kindPrefix(k), counters[k]), Marker: g.Marker(), File: files[g.N(len(files))]}
		if _, ok := resByKind(k); !ok {
			s.Unknown = true
			s.Name = fmt.Sprintf("%s-%d", strings.ToLower(k), counters[k])
		}
		switch k {
		case "Service":
			s.Ports = []int{80}
		case "Deployment":
			s.Rep = 1
			s.Ports = []int{80}
		case "ConfigMap", "Secret", "Widget", "Gadget", "Gizmo", "Alpha", "Zeta":
			s.Data = map[string]string{"k": g.Word()}
		}
		if k == "Namespace" {
			s.Name = fmt.Sprintf("verif-ns%d", counters[k])
		}
		s.Style = g.Pick("", "", "", "crlf", "comment", "blanklead", "embedded")
		if g.Chance(0.12) && k != "Namespace" {
			// kept on uninstall: must not disturb the order in which the others are deleted
			s.Keep = "keep"
		}
		if g.Chance(0.3) {
			h := &HookSpec{}
			switch g.N(5) {
			case 0, 1:
				h.Events = []string{g.Pick("post-install", "pre-upgrade", "pre-delete", "test", "post-rollback")}
			case 2:
				h.RawEvents = g.Pick("pre-foo", "postinstall", "crd-install")
			case 3:
				h.RawEvents = g.Pick("post-install,pre-foo", "pre-foo, post-upgrade")
			case 4:
				h.RawEvents = g.Pick(" Post-Install , pre-UPGRADE", "post-install,post-install")
			}
			if g.Chance(0.5) {
				w := g.N(5) - 2
				h.Weight = &w
			}
			if g.Chance(0.4) {
				h.Policies = []string{"hook-succeeded"}
			}
			s.Hook = h
		}
		cs.Slots = append(cs.Slots, s)
		if g.Chance(0.15) {
			cs.Slots = append(cs.Slots, ResSlot{Style: g.Pick("blankdoc", "commentdoc"), File: s.File, Marker: g.Marker()})
		}
	}
	if g.Chance(0.5) {
		cs.Notes = "NOTES-MARKER {{ .Release.Name }}\n"
	}
	cs.Partials = g.Chance(0.4)
	if g.Chance(0.5) {
		cs.SepStyle = map[string]string{}
		for _, f := range files {
			if g.Chance(0.5) {
				cs.SepStyle[f] = g.Pick("crlf", "comment", "spaces", "doubled", "leading")
			}
		}
	}
	p.Charts = []ChartSpec{cs}
	op := OpSpec{Op: "install", Chart: 0, Wait: g.Chance(0.3), NoHooks: g.Chance(0.2)}
	if clientOnly {
		op.ClientOnly = true
		op.DryRun = true
		op.DryRunOption = "true"
		op.Replace = true
		p.Variant = "client-only"
	} else if g.Chance(0.2) {
		op.DryRunOption = g.Pick("client", "server")
		p.Variant = "dry-run"
	} else {
		p.Variant = "real"
	}
	st := Step{Op: &op}
	if p.Variant == "real" && g.Chance(0.2) {
		st.Faults = []FaultSpec{{Kind: FStall, Pred: &Pred{Verb: "POST", Storage: boolp(false), PathHas: "/namespaces/", Nth: 1 + g.N(4)}}}
		p.Variant = "real-stall"
	}
	p.Steps = append(p.Steps, st)
	if p.Variant == "real" && g.Chance(0.6) {
		p.Steps = append(p.Steps, Step{Op: &OpSpec{Op: "uninstall", NoHooks: g.Chance(0.3)}})
	}
	p.Policy = "uniform"
	p.Schedule = g.Schedule(64)
	return p.Clone()
}
