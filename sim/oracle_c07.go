package sim

// C07 — Helm never takes over or deletes resources it does not own.

import (
	"fmt"
	"strings"
)

func ownedBy(o *Obj, rel, ns string) bool {
	l, _ := objLabel(o, "app.kubernetes.io/managed-by")
	n, _ := objAnnotation(o, "meta.helm.sh/release-name")
	s, _ := objAnnotation(o, "meta.helm.sh/release-namespace")
	return l == "Helm" && n == rel && s == ns
}

func oracleC07(x *Exec, so *StepObs) {
	if so.After == nil || len(so.Results) != 1 {
		return
	}
	const P = "C07"
	r := so.Results[0]
	op := &r.Op
	ns, rel := x.Plan.Namespace, x.Plan.Release
	opName := opSigName(op)
	fail := func(clause, cause, detail string) {
		x.Violate(Violation{P, clause, opName, cause + ledgerCtx(so.Before), detail, so.Index})
		x.stop = true
	}
	// deletes are confined to the release's own manifests, hooks and records (all operations)
	x.Res.Checks++
	for _, q := range r.Reqs {
		if q.Verb != "DELETE" || q.ID == nil {
			continue
		}
		if x.isRecordID(*q.ID) && strings.HasPrefix(q.ID.Name, "sh.helm.release.v1."+rel+".v") {
			continue
		}
		if !x.Owned[q.ID.String()] {
			fail("deletes-confined", "none", fmt.Sprintf("DELETE %s: the object is not named in any manifest or hook of the release", q.ID))
			return
		}
	}
	if op.Op == "rollback" && r.OK && !op.DryRun && !r.Crashed {
		// a rollback re-applies a recorded manifest: its objects carry the ownership metadata too
		if created := createdRev(so); created != 0 {
			x.Res.Checks++
			for _, id := range ManifestIDs(so.After.Rev(created).Manifest, ns) {
				if o := so.After.Cluster[id.String()]; o != nil && !ownedBy(o, rel, ns) {
					if res, found := resByKind(id.Kind); found && res.Typed {
						fail("stamped", "typed-kind:after-rollback", fmt.Sprintf("%s was re-applied by the rollback but does not carry managed-by label and release annotations", id))
						return
					}
				}
			}
		}
	}
	if op.Op != "install" && op.Op != "upgrade" {
		return
	}
	if isDryOp(op) || r.Crashed {
		return
	}
	// which identities would this operation create?
	mids, _ := ChartIDs(&x.Plan.Charts[op.Chart], op.Values, ns)
	existing := map[string]bool{}
	if op.Op == "upgrade" {
		for _, d := range so.Before.Deployed() {
			for _, id := range ManifestIDs(so.Before.Rev(d).Manifest, ns) {
				existing[id.String()] = true
			}
		}
		if len(so.Before.Deployed()) == 0 {
			return // upgrade over a failed-only history diffs against the last revision; not judged
		}
	}
	var foreign []string
	for _, id := range mids {
		if existing[id.String()] {
			continue
		}
		if o := so.Before.Cluster[id.String()]; o != nil && !ownedBy(o, rel, ns) {
			foreign = append(foreign, id.String())
		}
	}
	// an object that appears at a to-be-created identity WHILE the operation runs (after the pre-flight check)
	// must not be taken over either: no applied PATCH/PUT/DELETE on an object that was foreign at that moment
	if !op.TakeOwnership {
		x.Res.Checks++
		want := idSet(mids)
		for _, q := range r.Reqs {
			if q.ID == nil || !want[q.ID.String()] || existing[q.ID.String()] || q.TargetState != "foreign" {
				continue
			}
			if so.Before.Cluster[q.ID.String()] != nil {
				continue // it existed (and was judged) when the operation started; an actor swapping it afterwards is not Helm's doing
			}
			// (deletes are not judged here: the statement allows deleting any object the release's manifest names,
			// which is what the clean-up of a failed --atomic operation does)
			if (q.Verb == "PATCH" || q.Verb == "PUT") && q.Status >= 200 && q.Status < 300 {
				fail("foreign-object-untouched", "appeared-during-operation", fmt.Sprintf("%s %s was applied to %s, which did not carry the release's ownership metadata at that moment (take-ownership is off)", q.Verb, q.Path, q.ID))
				return
			}
		}
	}
	// Was the operation stopped earlier for an unrelated reason (name in use, no deployed release...)?
	stoppedEarly := !r.OK && !strings.Contains(r.Err, "exists and cannot be imported") && len(r.Mutations()) == 0
	if stoppedEarly {
		return
	}
	x.Res.Checks += 2
	if len(foreign) > 0 && !op.TakeOwnership {
		x.Sim.Probe("foreign-object-present")
		plantedCause := "planted"
		for _, q := range r.Reqs {
			if q.Verb == "GET" && q.Status == 403 {
				// the ownership lookup itself was refused by the cluster: not knowing is no licence to go ahead
				plantedCause = "planted:lookup-forbidden"
				x.Sim.Probe("c07-ownership-lookup-forbidden")
				break
			}
		}
		if r.OK || !strings.Contains(r.Err, "exists and cannot be imported") {
			fail("refuse-foreign", plantedCause, fmt.Sprintf("%v exist and are not owned by release %s/%s, yet the operation did not refuse (ok=%v err=%q)", foreign, ns, rel, r.OK, trunc(r.Err, 200)))
			return
		}
		if m := r.Mutations(); len(m) > 0 {
			fail("refuse-before-mutation", "planted", fmt.Sprintf("refused operation had already sent %s %s", m[0].Verb, m[0].Path))
			return
		}
		if so.Before.Summary() != so.After.Summary() {
			fail("refuse-leaves-history", "planted", fmt.Sprintf("history changed by a refused operation: %s -> %s", so.Before.Summary(), so.After.Summary()))
			return
		}
		for _, k := range sortedIDs(unionKeys(so.Before.Cluster, so.After.Cluster)) {
			b, a := so.Before.Cluster[k], so.After.Cluster[k]
			if b == nil || a == nil || a.RV != b.RV {
				fail("refuse-leaves-cluster", "planted", "cluster object "+k+" changed by a refused operation")
				return
			}
		}
		x.Sim.Probe("refused-cleanly")
		return
	}
	if len(foreign) == 0 && !r.OK && strings.Contains(r.Err, "exists and cannot be imported") {
		fail("no-spurious-refusal", "planted", fmt.Sprintf("operation refused although every pre-existing object is owned by the release: %s", trunc(r.Err, 300)))
		return
	}
	if r.OK {
		created := createdRev(so)
		if created == 0 {
			return
		}
		x.Res.Checks++
		swapped := map[string]bool{} // identities an out-of-band actor replaced while the operation ran
		for _, f := range so.Step.Faults {
			if f.Kind == FOob && f.Oob != nil {
				if res, ok := resByKind(f.Oob.Kind); ok {
					ons := f.Oob.NS
					if ons == "" && res.Namespaced {
						ons = ns
					}
					swapped[ObjID{Group: res.Group, Kind: res.Kind, Namespace: ons, Name: f.Oob.Name}.String()] = true
				}
			}
		}
		for _, id := range ManifestIDs(so.After.Rev(created).Manifest, ns) {
			o := so.After.Cluster[id.String()]
			if o == nil || swapped[id.String()] {
				continue // absent: C02's business; swapped mid-operation: not Helm's doing
			}
			if !ownedBy(o, rel, ns) {
				cl := "typed-kind"
				if res, found := resByKind(id.Kind); !found || !res.Typed {
					cl = "unstructured-kind"
				}
				if so.Before.Cluster[id.String()] != nil && !existing[id.String()] {
					cl += ":adopted-existing-object"
				}
				fail("stamped", cl, fmt.Sprintf("%s was created/updated by the release but does not carry managed-by label and release annotations", id))
				return
			}
		}
		if len(foreign) > 0 {
			x.Sim.Probe("took-ownership")
		}
	}
}

func unionKeys(a, b map[string]*Obj) map[string]bool {
	m := map[string]bool{}
	for k := range a {
		m[k] = true
	}
	for k := range b {
		m[k] = true
	}
	return m
}

// genC07: objects planted at identities the chart will create, with every
// flavour of ownership metadata.
func genC07(seed, index uint64, tier string) *Plan {
	g := NewGen(seed, index, 7)
	p := &Plan{Check: "C07", Seed: seed, Index: index, Namespace: "ns1", Release: "rel", ClientTOs: 30}
	p.Backend = g.Backend()
	co := g.SwarmChartOpts()
	co.Cond = false
	co.Subcharts = false
	p.Charts = g.ChartFamily(co)
	// some resources live in (or move to) an explicitly named other namespace: identity includes the namespace
	if g.Chance(0.4) {
		for ci := range p.Charts {
			for si := range p.Charts[ci].Slots {
				s := &p.Charts[ci].Slots[si]
				if res, ok := resByKind(s.Kind); ok && res.Namespaced && s.Hook == nil && g.Chance(0.3) {
					s.NS = "other"
				}
			}
		}
	}
	// some manifests carry a managed-by label / release annotations of their own with other values: Helm's stamp wins
	if g.Chance(0.3) {
		for ci := range p.Charts {
			for si := range p.Charts[ci].Slots {
				s := &p.Charts[ci].Slots[si]
				if s.Hook != nil || !g.Chance(0.4) {
					continue
				}
				if g.Chance(0.6) {
					if s.Labels == nil {
						s.Labels = map[string]string{}
					}
					s.Labels["app.kubernetes.io/managed-by"] = g.Pick("kustomize", "Tiller", "helm")
				}
				if g.Chance(0.5) {
					if s.Annots == nil {
						s.Annots = map[string]string{}
					}
					s.Annots["meta.helm.sh/release-name"] = g.Pick("someone-else", "REL")
					if g.Chance(0.5) {
						s.Annots["meta.helm.sh/release-namespace"] = "elsewhere"
					}
				}
			}
		}
	}
	ho := &HistoryOpts{NVersions: len(p.Charts), Flags: true, WaitP: 0.2, AtomicP: 0.1, FirstInst: 1}
	n := 1 + g.Weighted(4, 4, 2)
	for i := 0; i < n; i++ {
		var op OpSpec
		switch {
		case i == 0:
			op = g.Op(0, ho)
		default:
			for {
				op = g.Op(i, ho)
				if op.Op == "upgrade" || op.Op == "install" || op.Op == "uninstall" {
					break
				}
			}
		}
		op.Values = nil
		op.Force = false
		op.TakeOwnership = g.Chance(0.25)
		// plant before this step
		cs := &p.Charts[op.Chart]
		var cand []*ResSlot
		for j := range cs.Slots {
			if cs.Slots[j].Hook == nil {
				cand = append(cand, &cs.Slots[j])
			}
		}
		if (op.Op == "install" || op.Op == "upgrade") && len(cand) > 0 && g.Chance(0.7) {
			for k := 0; k < 1+g.N(2); k++ {
				s := cand[g.N(len(cand))]
				p.Steps = append(p.Steps, Step{Oob: g.plantFor(s, p)})
			}
		}
		st := Step{Op: &op}
		if (op.Op == "install" || op.Op == "upgrade") && len(cand) > 0 && g.Chance(0.15) {
			// the cluster refuses a read (an RBAC role without get on one kind): an operation that cannot tell whether
			// an object is foreign stops before touching anything, like one that can
			st.Faults = append(st.Faults, FaultSpec{Kind: FReject, Code: 403, Pred: &Pred{Storage: boolp(false), Verb: "GET", PathHas: "/" + cand[g.N(len(cand))].Name, Nth: 1}})
			op.Atomic = op.Atomic || g.Chance(0.4)
		}
		if (op.Op == "install" || op.Op == "upgrade") && len(cand) > 0 && g.Chance(0.25) {
			// the foreign object appears after the pre-flight ownership check: when the release record is created,
			// or when the first hook is being waited for
			pl := g.plantFor(cand[g.N(len(cand))], p)
			f := FaultSpec{Kind: FOob, Oob: pl, Pred: &Pred{Storage: boolp(true), Verb: "POST", Nth: 1}}
			if p.Backend == "memory" {
				f.Pred = &Pred{Verb: "STORE", PathHas: "create", Nth: 1}
			}
			st.Faults = append(st.Faults, f)
		}
		p.Steps = append(p.Steps, st)
	}
	p.Variant = "planted"
	p.Policy = "uniform"
	p.Schedule = g.Schedule(32)
	return p.Clone()
}

func (g *Gen) plantFor(s *ResSlot, p *Plan) *OobSpec {
	md := map[string]interface{}{}
	labels := map[string]interface{}{}
	ann := map[string]interface{}{}
	name, ns := s.Name, s.NS
	switch g.N(8) {
	case 0: // no metadata at all
	case 1: // foreign labels only
		labels["app"] = "someone-else"
	case 2: // managed-by only
		labels["app.kubernetes.io/managed-by"] = "Helm"
	case 3: // right name, wrong namespace annotation
		labels["app.kubernetes.io/managed-by"] = "Helm"
		ann["meta.helm.sh/release-name"] = p.Release
		ann["meta.helm.sh/release-namespace"] = "other"
	case 4: // wrong name, right namespace
		labels["app.kubernetes.io/managed-by"] = "Helm"
		ann["meta.helm.sh/release-name"] = p.Release + "x"
		ann["meta.helm.sh/release-namespace"] = p.Namespace
	case 5: // fully owned
		labels["app.kubernetes.io/managed-by"] = "Helm"
		ann["meta.helm.sh/release-name"] = p.Release
		ann["meta.helm.sh/release-namespace"] = p.Namespace
	case 6: // annotations right, label value wrong case
		labels["app.kubernetes.io/managed-by"] = "helm"
		ann["meta.helm.sh/release-name"] = p.Release
		ann["meta.helm.sh/release-namespace"] = p.Namespace
	case 7: // same name in another namespace: not a conflict
		if s.NS == "" {
			ns = "other"
		} else {
			ns = p.Namespace
		}
	}
	if len(labels) > 0 {
		md["labels"] = labels
	}
	if len(ann) > 0 {
		md["annotations"] = ann
	}
	obj := map[string]interface{}{"metadata": md}
	if s.Kind == "ConfigMap" {
		obj["data"] = map[string]interface{}{"planted": "yes"}
	}
	return &OobSpec{Action: "create", Kind: s.Kind, Name: name, NS: ns, Obj: obj}
}
