package sim

import "testing"

// Registry of checks: per property, how Plans are generated and which oracle
// judges them.

type CheckDef struct {
	ID     string
	Gen    func(seed, index uint64, tier string) *Plan
	Oracle func(x *Exec, so *StepObs)
	Final  func(x *Exec)
	// SweepBase generates the fault-free base histories for the single-fault sweep (nil = no sweep).
	SweepBase func(seed, index uint64, tier string) *Plan
	// SweepKinds lists, for a seam call of the given verb, the fault kinds to place on it.
	SweepKinds func(p *Plan, step int, verb string) []FaultSpec
	Race       bool // needs the -race binary
	// Exec replaces the cluster executor (checks whose Plan is not a history of Helm operations).
	Exec func(t *testing.T, p *Plan) *RunResult
}

var Checks = map[string]*CheckDef{}

func register(c *CheckDef) { Checks[c.ID] = c }

func init() {
	register(&CheckDef{ID: "C01", Gen: genC01, Oracle: oracleC01, SweepBase: sweepBaseC01, SweepKinds: sweepKindsC01})
	register(&CheckDef{ID: "C02", Gen: genC02, Oracle: oracleC02})
	register(&CheckDef{ID: "C03", Gen: genC03, Oracle: oracleC03, SweepBase: sweepBaseC03, SweepKinds: sweepKindsC03})
	register(&CheckDef{ID: "C05", Gen: genC05, Exec: ExecuteC05})
	register(&CheckDef{ID: "C06", Gen: genC06, Oracle: oracleC06})
	register(&CheckDef{ID: "C07", Gen: genC07, Oracle: oracleC07})
	register(&CheckDef{ID: "C08", Gen: genC08, Oracle: oracleC08})
	register(&CheckDef{ID: "C09", Gen: genC09, Oracle: oracleC09, Race: true})
	register(&CheckDef{ID: "C10", Gen: genC10, Exec: ExecuteC10})
	register(&CheckDef{ID: "C13", Gen: genC13, Oracle: oracleC13})
	register(&CheckDef{ID: "C14", Gen: genC14, Oracle: oracleC14})
	register(&CheckDef{ID: "C17", Gen: genC17, Exec: ExecuteNet})
	register(&CheckDef{ID: "C19", Gen: genC19, Exec: ExecuteC19})
	register(&CheckDef{ID: "C20", Gen: genC20all, Exec: execC20})
	register(&CheckDef{ID: "C12", Gen: genC12, Oracle: oracleC12, SweepBase: sweepBaseC12, SweepKinds: sweepKindsC12})
}

// C20 has four slices: damaged stored records (clustersim), damaged downloads (netsim), charts damaged on disk,
// and self-referential templates.
func genC20all(seed, index uint64, tier string) *Plan {
	if index%4 == 3 {
		return genC20b(NewGen(seed, index, 120), seed, index)
	}
	if index%16 == 6 {
		return genC20c(NewGen(seed, index, 220), seed, index)
	}
	if index%4 == 1 {
		return genC20d(NewGen(seed, index, 320), seed, index)
	}
	return genC20(seed, index, tier)
}

func execC20(t *testing.T, p *Plan) *RunResult {
	if p.Net != nil {
		return ExecuteC20b(t, p)
	}
	if p.Disk != nil {
		return ExecuteC20d(t, p)
	}
	if p.Render != nil {
		return ExecuteC20c(t, p)
	}
	r, _ := Execute(t, p, oracleC20, nil, false)
	return r
}
