package sim

// The one test binary. Selected by VERIF_* environment variables; run by
// /verif/check. Without VERIF_MODE only the smoke test runs.

import (
	"bufio"
	"encoding/json"
	"fmt"
	"os"
	"os/signal"
	"path/filepath"
	"runtime"
	"strconv"
	"strings"
	"sync"
	"syscall"
	"testing"
	"time"
)

func init() {
	// os/signal starts its signal-mask goroutine and the channels it selects on at the first Notify call. Helm's
	// install/upgrade commands call Notify; if that first call happened inside a synctest bubble the runtime would
	// abort ("select on synctest channel from outside bubble"). Do it once here, outside any bubble.
	c := make(chan os.Signal, 1)
	signal.Notify(c, syscall.SIGUSR2)
	signal.Stop(c)
}

func envU(name string, def uint64) uint64 {
	if v := os.Getenv(name); v != "" {
		n, err := strconv.ParseUint(v, 10, 64)
		if err != nil {
			panic(name + ": " + err.Error())
		}
		return n
	}
	return def
}

type batchOut struct {
	w   *bufio.Writer
	f   *os.File
	dir string
}

func openOut() *batchOut {
	path := os.Getenv("VERIF_OUT")
	if path == "" {
		return &batchOut{w: bufio.NewWriter(os.Stdout)}
	}
	f, err := os.Create(path)
	if err != nil {
		panic(err)
	}
	return &batchOut{w: bufio.NewWriter(f), f: f, dir: filepath.Dir(path)}
}

func (o *batchOut) emit(v interface{}) {
	b, err := json.Marshal(v)
	if err != nil {
		panic(err)
	}
	o.w.Write(b)
	o.w.WriteByte('\n')
	o.w.Flush()
}

func (o *batchOut) close() {
	o.w.Flush()
	if o.f != nil {
		o.f.Close()
	}
}

type outLine struct {
	*RunResult
	PlanFile string `json:"planFile,omitempty"`
	Sample   *Plan  `json:"sample,omitempty"`
	Child    string `json:"child,omitempty"`
}

func savePlan(o *batchOut, plan *Plan, tag string) string {
	if o.dir == "" {
		return ""
	}
	path := filepath.Join(o.dir, fmt.Sprintf("plan-%s-%d-%d%s.json", plan.Check, plan.Seed, plan.Index, tag))
	if err := plan.Save(path); err != nil {
		panic(err)
	}
	return path
}

// run executes a Plan with the check's executor.
func run(t *testing.T, def *CheckDef, plan *Plan, keep bool) (*RunResult, *Exec) {
	if def.Exec != nil {
		return def.Exec(t, plan), nil
	}
	if strings.HasPrefix(plan.Variant, "race-lazy-") {
		return ExecuteLazyShared(t, plan), nil
	}
	return Execute(t, plan, def.Oracle, def.Final, keep)
}

func TestEngine(t *testing.T) {
	mode := os.Getenv("VERIF_MODE")
	if mode == "" {
		t.Skip("VERIF_MODE not set")
	}
	check := os.Getenv("VERIF_CHECK")
	def := Checks[check]
	if def == nil && mode != "replay" && mode != "minimise" {
		t.Fatalf("unknown check %q", check)
	}
	seed := envU("VERIF_SEED", 1)
	tier := os.Getenv("VERIF_TIER")
	from, to := envU("VERIF_FROM", 0), envU("VERIF_TO", 10)
	deadline := time.Unix(int64(envU("VERIF_DEADLINE", uint64(time.Now().Add(24*time.Hour).Unix()))), 0)
	startWatchdog()
	switch mode {
	case "batch":
		out := openOut()
		defer out.close()
		samples := 0
		for i := from; i < to; i++ {
			if time.Now().After(deadline) {
				break
			}
			plan := def.Gen(seed, i, tier)
			progress(fmt.Sprintf("%s seed=%d index=%d", check, seed, i))
			if out.f != nil {
				// a panic on one of Helm's own goroutines kills the process: leave a note saying which plan ran
				os.WriteFile(out.f.Name()+".cur", []byte(fmt.Sprintf("%d", i)), 0o644)
			}
			if os.Getenv("VERIF_RACE") != "" {
				// the race detector reports on stderr; mark which plan is running and keep it for replay
				pf := savePlan(out, plan, "-race")
				fmt.Fprintf(os.Stderr, "RACE-START %d %s\n", i, pf)
			}
			res, _ := run(t, def, plan, false)
			if os.Getenv("VERIF_RACE") != "" {
				fmt.Fprintf(os.Stderr, "RACE-END %d\n", i)
			}
			line := outLine{RunResult: res}
			res.SeamKinds = nil
			if len(res.Violations) > 0 || res.Infra != "" {
				line.PlanFile = savePlan(out, plan, "")
			} else if samples < 2 && res.NonTrivial {
				samples++
				line.Sample = plan
			}
			out.emit(line)
			if AbandonProcess {
				break // a goroutine that never returns was left behind in this process
			}
		}
	case "sweep":
		out := openOut()
		defer out.close()
		for i := from; i < to; i++ {
			if time.Now().After(deadline) {
				break
			}
			runSweep(t, def, seed, i, tier, out, deadline)
		}
	case "replay":
		plan, err := LoadPlan(os.Getenv("VERIF_PLAN"))
		if err != nil {
			t.Fatal(err)
		}
		def = Checks[plan.Check]
		if def == nil {
			t.Fatalf("unknown check %q in plan", plan.Check)
		}
		res, ex := run(t, def, plan, true)
		if os.Getenv("VERIF_TRACE") != "" && ex != nil {
			for _, l := range ex.Sim.EvLines {
				fmt.Println(l)
			}
		}
		out := openOut()
		defer out.close()
		res.SeamKinds = nil
		out.emit(outLine{RunResult: res})
	case "minimise":
		plan, err := LoadPlan(os.Getenv("VERIF_PLAN"))
		if err != nil {
			t.Fatal(err)
		}
		def = Checks[plan.Check]
		min, sig, runs := Minimise(t, def, plan, os.Getenv("VERIF_CLASS"), deadline)
		min.Expect = sig
		dst := os.Getenv("VERIF_MIN_OUT")
		if err := min.Save(dst); err != nil {
			t.Fatal(err)
		}
		fmt.Printf("MINIMISED signature=%s runs=%d steps=%d file=%s\n", sig, runs, len(min.Steps), dst)
	case "gen":
		plan := def.Gen(seed, from, tier)
		if err := plan.Save(os.Getenv("VERIF_MIN_OUT")); err != nil {
			t.Fatal(err)
		}
	case "hashes":
		// determinism self-test: print the event-log hash of every index
		for i := from; i < to; i++ {
			plan := def.Gen(seed, i, tier)
			res, _ := run(t, def, plan, false)
			sigs := []string{}
			for _, v := range res.Violations {
				sigs = append(sigs, v.Signature())
			}
			fmt.Printf("HASH %s %d %d %s %d %s %s\n", check, seed, i, res.EventHash, res.Events, strings.Join(sigs, ","), res.Infra)
		}
	default:
		t.Fatalf("unknown mode %q", mode)
	}
}

// runSweep executes one fault-free base history, then re-executes it once for
// every placement of one fault on every seam call of every operation.
func runSweep(t *testing.T, def *CheckDef, seed, index uint64, tier string, out *batchOut, deadline time.Time) {
	base := def.SweepBase(seed, index, tier)
	res, _ := Execute(t, base, def.Oracle, def.Final, false)
	kinds := res.SeamKinds
	res.SeamKinds = nil
	line := outLine{RunResult: res, Child: "base"}
	if len(res.Violations) > 0 || res.Infra != "" {
		line.PlanFile = savePlan(out, base, "-base")
		out.emit(line)
		return
	}
	line.Sample = base
	out.emit(line)
	child := 0
	for si := range kinds {
		if base.Steps[si].Op == nil {
			continue
		}
		for k, verb := range kinds[si] {
			for _, f := range def.SweepKinds(base, si, verb) {
				if time.Now().After(deadline) {
					return
				}
				p := base.Clone()
				f.K = k + 1
				p.Steps[si].Faults = []FaultSpec{f}
				p.Variant = "sweep"
				child++
				progress(fmt.Sprintf("%s seed=%d index=%d child=s%d.k%d.%s", def.ID, seed, index, si, k+1, f.Kind))
				r, _ := Execute(t, p, def.Oracle, def.Final, false)
				r.SeamKinds = nil
				l := outLine{RunResult: r, Child: fmt.Sprintf("s%d.k%d.%s", si, k+1, f.Kind)}
				if len(r.Violations) > 0 || r.Infra != "" {
					l.PlanFile = savePlan(out, p, fmt.Sprintf("-s%d-k%d-%s", si, k+1, f.Kind))
				}
				out.emit(l)
			}
		}
	}
}

// Watchdog: a run that makes no progress for 120 real seconds means the
// bubble is wedged (a goroutine blocked in a way synctest cannot see). That is
// harness trouble, never a violation: exit code 3.
var (
	wdMu   sync.Mutex
	wdLast = time.Now()
	wdWhat string
)

func progress(what string) {
	wdMu.Lock()
	wdLast, wdWhat = time.Now(), what
	wdMu.Unlock()
}

func startWatchdog() {
	go func() {
		for {
			time.Sleep(5 * time.Second)
			wdMu.Lock()
			idle, what := time.Since(wdLast), wdWhat
			wdMu.Unlock()
			if idle > 120*time.Second {
				fmt.Fprintf(os.Stderr, "WATCHDOG: no progress for %v in %s\n", idle, what)
				buf := make([]byte, 1<<20)
				n := runtime.Stack(buf, true)
				os.Stderr.Write(buf[:n])
				os.Exit(3)
			}
		}
	}()
}

func TestSmoke(t *testing.T) {
	if os.Getenv("VERIF_MODE") != "" {
		t.Skip()
	}
	w1 := 1
	plan := &Plan{Check: "smoke", Backend: "secrets", Namespace: "ns1", Release: "rel", ClientTOs: 30,
		Charts: []ChartSpec{
			{Name: "demo", Version: "1.0.0", Values: map[string]interface{}{"a": "one"}, Notes: "hello {{ .Values.a }}", Slots: []ResSlot{
				{Kind: "ConfigMap", Name: "cm1", File: "a.yaml", Marker: "m1", Data: map[string]string{"k": "$a"}},
				{Kind: "ConfigMap", Name: "cm2", File: "a.yaml", Marker: "m2", Data: map[string]string{"k": "lit"}},
				{Kind: "Service", Name: "svc", File: "b.yaml", Marker: "m3", Ports: []int{80, 443}},
				{Kind: "Deployment", Name: "dep", File: "c.yaml", Marker: "m4", Rep: 2, Ports: []int{80}, Data: map[string]string{"E": "$a"}},
				{Kind: "Job", Name: "pre", File: "h.yaml", Marker: "m5", Hook: &HookSpec{Events: []string{"pre-install", "pre-upgrade"}, Weight: &w1, Policies: []string{"hook-succeeded"}}},
				{Kind: "Widget", Name: "w1", File: "w.yaml", Marker: "m6", Data: map[string]string{"size": "$a"}},
			}},
			{Name: "demo", Version: "1.1.0", Values: map[string]interface{}{"a": "two"}, Slots: []ResSlot{
				{Kind: "ConfigMap", Name: "cm1", File: "a.yaml", Marker: "m1", Data: map[string]string{"k": "$a"}},
				{Kind: "Service", Name: "svc", File: "b.yaml", Marker: "m3", Ports: []int{80, 8080}},
				{Kind: "Deployment", Name: "dep", File: "c.yaml", Marker: "m4", Rep: 3, Ports: []int{80}, Data: map[string]string{"E": "$a"}},
				{Kind: "Widget", Name: "w1", File: "w.yaml", Marker: "m6", Data: map[string]string{"size": "$a"}},
			}},
		},
		Steps: []Step{
			{Op: &OpSpec{Op: "install", Chart: 0, Wait: true}},
			{Op: &OpSpec{Op: "upgrade", Chart: 1, Wait: true}},
			{Op: &OpSpec{Op: "rollback", Revision: 1}},
			{Op: &OpSpec{Op: "uninstall"}},
		},
		Schedule: []uint32{3, 1, 4, 1, 5, 9, 2, 6},
	}
	for _, be := range []string{"secrets", "configmaps", "memory"} {
		p := plan.Clone()
		p.Backend = be
		res, _ := Execute(t, p, nil, nil, false)
		if res.Infra != "" || !strings.Contains(res.Outcome, "uninstall=ok[] {}") {
			t.Fatalf("%s: %+v", be, res)
		}
	}
}
