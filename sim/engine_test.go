package sim

import (
	"encoding/json"
	"fmt"
	"os"
	"testing"
)

func TestSmoke(t *testing.T) {
	w1 := 1
	plan := &Plan{Check: "smoke", Backend: "secrets", Namespace: "ns1", Release: "rel", ClientTOs: 30,
		Charts: []ChartSpec{
			{Name: "demo", Version: "1.0.0", Values: map[string]interface{}{"a": "one"}, Notes: "hello {{ .Values.a }}", Slots: []ResSlot{
				{Kind: "ConfigMap", Name: "cm1", File: "a.yaml", Marker: "m1", Data: map[string]string{"k": "$a"}},
				{Kind: "ConfigMap", Name: "cm2", File: "a.yaml", Marker: "m2", Data: map[string]string{"k": "lit"}},
				{Kind: "Service", Name: "svc", File: "b.yaml", Marker: "m3", Ports: []int{80, 443}},
				{Kind: "Deployment", Name: "dep", File: "c.yaml", Marker: "m4", Rep: 2, Ports: []int{80}, Data: map[string]string{"E": "$a"}},
				{Kind: "Job", Name: "pre", File: "h.yaml", Marker: "m5", Hook: &HookSpec{Events: []string{"pre-install", "pre-upgrade"}, Weight: &w1, Policies: []string{"hook-succeeded"}}},
				{Kind: "Widget", Name: "w1", File: "w.yaml", Marker: "m6", Data: map[string]string{"size": "$a"}},
			}},
			{Name: "demo", Version: "1.1.0", Values: map[string]interface{}{"a": "two"}, Slots: []ResSlot{
				{Kind: "ConfigMap", Name: "cm1", File: "a.yaml", Marker: "m1", Data: map[string]string{"k": "$a"}},
				{Kind: "Service", Name: "svc", File: "b.yaml", Marker: "m3", Ports: []int{80, 8080}},
				{Kind: "Deployment", Name: "dep", File: "c.yaml", Marker: "m4", Rep: 3, Ports: []int{80}, Data: map[string]string{"E": "$a"}},
				{Kind: "Widget", Name: "w1", File: "w.yaml", Marker: "m6", Data: map[string]string{"size": "$a"}},
			}},
		},
		Steps: []Step{
			{Op: &OpSpec{Op: "install", Chart: 0, Wait: true}},
			{Op: &OpSpec{Op: "upgrade", Chart: 1, Wait: true}},
			{Op: &OpSpec{Op: "rollback", Revision: 1}},
			{Op: &OpSpec{Op: "uninstall"}},
		},
		Schedule: []uint32{3, 1, 4, 1, 5, 9, 2, 6},
	}
	if f := os.Getenv("VERIF_BACKEND"); f != "" {
		plan.Backend = f
	}
	res, ex := Execute(t, plan.Clone(), nil, nil, true)
	for _, l := range ex.Sim.EvLines {
		fmt.Println(l)
	}
	b, _ := json.MarshalIndent(res, "", " ")
	fmt.Println(string(b))
}
