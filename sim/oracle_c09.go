package sim

// C09 — concurrent installs/upgrades of one release cannot both proceed.

import (
	"fmt"
	"sort"
	"strconv"
	"strings"
)

type recEvent struct {
	seq    uint64
	proc   string
	rev    int
	status string
	kind   string // create update delete
}

// recordTimeline reconstructs, from the request log (Kubernetes backends) or
// the storage seam log (memory), every applied write to a record of the release.
func recordTimeline(x *Exec, so *StepObs) []recEvent {
	var evs []recEvent
	prefix := "sh.helm.release.v1." + x.Plan.Release + ".v"
	for _, r := range so.Results {
		if x.Backend.Kind == "memory" {
			for i, c := range r.StoreLog {
				if !c.Applied || !strings.HasPrefix(c.Key, prefix) {
					continue
				}
				if c.Op != "create" && c.Op != "update" && c.Op != "delete" {
					continue
				}
				n, err := strconv.Atoi(strings.TrimPrefix(c.Key, prefix))
				if err != nil {
					continue
				}
				evs = append(evs, recEvent{c.Seq*1000 + uint64(i), r.Proc, n, c.Status, c.Op})
			}
			continue
		}
		for _, q := range r.Reqs {
			if q.ID == nil || !strings.HasPrefix(q.ID.Name, prefix) || !q.Applied || q.Status < 200 || q.Status > 299 {
				continue
			}
			n, err := strconv.Atoi(strings.TrimPrefix(q.ID.Name, prefix))
			if err != nil {
				continue
			}
			switch q.Verb {
			case "POST":
				evs = append(evs, recEvent{q.SeqOut * 1000, r.Proc, n, recordStatusFromBody(q.Body), "create"})
			case "PUT":
				evs = append(evs, recEvent{q.SeqOut * 1000, r.Proc, n, recordStatusFromBody(q.Body), "update"})
			case "DELETE":
				evs = append(evs, recEvent{q.SeqOut * 1000, r.Proc, n, "", "delete"})
			}
		}
	}
	sort.SliceStable(evs, func(i, j int) bool { return evs[i].seq < evs[j].seq })
	return evs
}

var c09AllowedErrors = []string{
	"already exists",
	"another operation (install/upgrade/rollback) is in progress",
	"cannot reuse a name that is still in use",
	"has no deployed releases",
}

func oracleC09(x *Exec, so *StepObs) {
	if so.After == nil || len(so.Results) < 2 {
		return
	}
	const P = "C09"
	var names []string
	for _, r := range so.Results {
		names = append(names, opSigName(&r.Op))
	}
	sort.Strings(names)
	opName := strings.Join(names, "|")
	ctx := "@" + x.Backend.Kind + ledgerCtx(so.Before)
	fail := func(clause, cause, detail string) {
		x.Violate(Violation{P, clause, opName, cause + ctx, detail, so.Index})
		x.stop = true
	}
	x.Res.Checks += 4
	evs := recordTimeline(x, so)
	// exactly one creator per revision
	creator := map[int]string{}
	prunes := map[string]bool{} // operations that prune history (--history-max)
	for _, r := range so.Results {
		if r.Op.MaxHistory > 0 && r.Op.Op != "uninstall" {
			prunes[r.Proc] = true
		}
	}
	for _, e := range evs {
		if e.kind != "create" {
			continue
		}
		if c, dup := creator[e.rev]; dup {
			cause := "none"
			for _, d := range evs {
				// (in the race-detector population calls of a co-released set are answered together: their recorded order is arbitrary)
				if d.kind == "delete" && d.rev == e.rev && (d.seq < e.seq || x.Plan.CoRelease != "") {
					if d.proc == e.proc {
						cause = "second-creator-pruned-the-first-record"
					} else if d.proc != c && cause == "none" && prunes[d.proc] {
						// with three operations the pruning one need not be the one whose create then succeeds
						cause = "third-operation-pruned-the-first-record"
					}
				}
			}
			fail("one-creator-per-revision", cause, fmt.Sprintf("revision %d was created by %s and again by %s", e.rev, c, e.proc))
			return
		}
		creator[e.rev] = e.proc
	}
	created := map[string]bool{}
	for _, p := range creator {
		created[p] = true
	}
	endOf := map[string]uint64{}
	for _, r := range so.Results {
		endOf[r.Proc] = r.EndSeq * 1000
	}
	// losers: error of the documented kind, and no release resource touched
	for _, r := range so.Results {
		if created[r.Proc] {
			continue
		}
		x.Sim.Probe("c09-loser")
		if r.OK {
			fail("loser-fails", "none", fmt.Sprintf("%s (%s) created no revision but reported success", r.Proc, r.Op.Op))
			return
		}
		okErr := false
		for _, a := range c09AllowedErrors {
			if strings.Contains(r.Err, a) {
				okErr = true
			}
		}
		if !okErr {
			fail("loser-fails", "unexpected-error", fmt.Sprintf("%s (%s) created no revision and failed with %q", r.Proc, r.Op.Op, trunc(r.Err, 200)))
			return
		}
		for _, q := range r.Reqs {
			if q.Mutating() && q.ID != nil && !x.isRecordID(*q.ID) {
				fail("loser-touches-nothing", "none", fmt.Sprintf("%s (%s) failed with %q but had sent %s %s", r.Proc, r.Op.Op, trunc(r.Err, 80), q.Verb, q.Path))
				return
			}
		}
		// an operation that lost the race must not rewrite another operation's revision record
		for _, e := range evs {
			if e.proc == r.Proc && e.kind == "update" {
				fail("loser-rewrites-no-record", "status="+e.status, fmt.Sprintf("%s (%s) created no revision, failed with %q, and yet rewrote the record of revision %d with status %s", r.Proc, r.Op.Op, trunc(r.Err, 80), e.rev, e.status))
				return
			}
		}
	}
	// an install (with or without --replace) that read the history only after another operation's pending revision had been
	// stored must have been refused: the name is in use. (When the read comes BEFORE that record exists, install --replace
	// slips through — that window is the recorded finding; this clause is the other side of it.)
	for _, r := range so.Results {
		if r.Op.Op != "install" || !created[r.Proc] {
			continue
		}
		first := firstHistoryRead(x, r)
		if first == 0 {
			continue
		}
		for _, e := range evs {
			if e.kind != "create" || e.proc == r.Proc || !strings.HasPrefix(e.status, "pending-") || e.seq >= first {
				continue
			}
			// the other operation's record is still pending at the time of the read?
			stillPending := true
			for _, u := range evs {
				if u.rev == e.rev && u.seq > e.seq && u.seq < first && (u.kind == "update" || u.kind == "delete") {
					stillPending = false
				}
			}
			if stillPending {
				fail("name-in-use-refused", "install-read-the-pending-record", fmt.Sprintf("%s (install) first read the history after revision %d of %s had been stored as %s, and still created a revision", r.Proc, e.rev, e.proc, e.status))
				return
			}
		}
	}
	// nobody creates a revision while another operation's revision is pending
	state := map[int]string{}
	for _, lr := range so.Before.Ledger {
		state[lr.Rev] = lr.Status
	}
	for _, e := range evs {
		switch e.kind {
		case "create":
			for rev, st := range state {
				if !strings.HasPrefix(st, "pending-") {
					continue
				}
				owner, known := creator[rev]
				if !known || owner == e.proc {
					continue
				}
				if endOf[owner] > e.seq {
					if e.status == "pending-rollback" {
						// the creator is a rollback (here: the automatic one of an upgrade --atomic that failed): Rollback
						// reads the last revision and never looks at its pending status
						fail("no-create-while-pending", "rollback-ignores-pending", fmt.Sprintf("%s created revision %d (%s) while revision %d of %s was %s and %s had not returned", e.proc, e.rev, e.status, rev, owner, st, owner))
						return
					}
					fail("no-create-while-pending", "none", fmt.Sprintf("%s created revision %d while revision %d of %s was %s and %s had not returned", e.proc, e.rev, rev, owner, st, owner))
					return
				}
			}
			state[e.rev] = e.status
		case "update":
			state[e.rev] = e.status
		case "delete":
			delete(state, e.rev)
		}
	}
	if len(created) > 0 {
		x.Sim.Probe(fmt.Sprintf("c09-winners=%d", len(created)))
	}
	// a winner that reported success: the revision it created still exists and is deployed or superseded
	for _, r := range so.Results {
		if !created[r.Proc] || !r.OK {
			continue
		}
		for rev, p := range creator {
			if p != r.Proc {
				continue
			}
			lr := so.After.Rev(rev)
			pruned := false
			for _, e := range evs {
				if e.kind == "delete" && e.rev == rev {
					pruned = true
				}
			}
			if lr == nil && pruned {
				continue // history limit of a later operation
			}
			if lr == nil || (lr.Status != "deployed" && lr.Status != "superseded") {
				st := "absent"
				if lr != nil {
					st = lr.Status
				}
				fail("winner-ends-deployed", "none", fmt.Sprintf("%s (%s) reported success but its revision %d is %s at quiescence", r.Proc, r.Op.Op, rev, st))
				return
			}
		}
	}
	ledgerInvariants(x, so, P, opName, "none"+ctx)
}

// firstHistoryRead returns (on the scale of recordTimeline) when the operation's first read of the release history was
// answered, 0 if it made none.
func firstHistoryRead(x *Exec, r *OpResult) uint64 {
	if x.Backend.Kind == "memory" {
		for i, c := range r.StoreLog {
			if c.Op == "query" || c.Op == "list" || c.Op == "get" {
				return c.Seq*1000 + uint64(i)
			}
		}
		return 0
	}
	for _, q := range r.Reqs {
		if q.Verb == "GET" && q.SeqOut != 0 && (strings.Contains(q.Path, "/secrets") || strings.Contains(q.Path, "/configmaps")) && strings.Contains(q.Query, "owner") {
			return q.SeqOut * 1000
		}
	}
	return 0
}

func genC09(seed, index uint64, tier string) *Plan {
	g := NewGen(seed, index, 9)
	p := &Plan{Check: "C09", Seed: seed, Index: index, Namespace: "ns1", Release: "rel", ClientTOs: 30}
	p.Backend = g.Backend()
	co := g.SwarmChartOpts()
	co.MaxRes = 1 + g.N(3)
	co.Subcharts = false
	p.Charts = g.ChartFamily(co)
	start := g.Weighted(4, 5, 1) // empty, deployed, uninstalled-with-history
	if start >= 1 {
		p.Steps = append(p.Steps, Step{Op: &OpSpec{Op: "install", Chart: 0}})
	}
	if start == 2 {
		p.Steps = append(p.Steps, Step{Op: &OpSpec{Op: "uninstall", KeepHistory: true}})
	}
	n := 2
	if g.Chance(0.3) {
		n = 3
	}
	var grp []OpSpec
	for i := 0; i < n; i++ {
		op := OpSpec{Chart: g.N(len(p.Charts)), Values: g.UserValues()}
		switch g.Weighted(3, 2, 5, 2) {
		case 0:
			op.Op = "install"
		case 1:
			op.Op = "install"
			op.Replace = true
		case 2:
			op.Op = "upgrade"
		case 3:
			op.Op = "upgrade"
			op.MaxHistory = 1 + g.N(3)
		}
		op.NoHooks = g.Chance(0.5)
		op.Atomic = g.Chance(0.2)
		grp = append(grp, op)
	}
	gst := Step{Group: grp}
	if start == 1 && tier != "race" && g.Chance(0.2) {
		// one of the concurrent operations is an upgrade --atomic that the cluster refuses half-way: its automatic rollback
		// (a revision in pending-rollback) runs while the others arrive, and must keep them out like any pending operation
		for i := range gst.Group {
			if gst.Group[i].Op == "upgrade" {
				gst.Group[i].Atomic = true
				gst.Group[i].NoHooks = true
				gst.Faults = []FaultSpec{{Kind: FReject, Code: 403, Proc: fmt.Sprintf("p%d.%d", len(p.Steps), i),
					Pred: &Pred{Storage: boolp(false), Mutating: boolp(true), PathHas: "/namespaces/", Nth: 1 + g.N(2)}}}
				break
			}
		}
	}
	if start <= 1 && tier != "race" && len(gst.Faults) == 0 && g.Chance(0.1) {
		// the same race through the command line layer: `helm upgrade --install` decides between install and upgrade from
		// a history it reads itself, before the action's own checks
		for i := range gst.Group {
			cli := OpSpec{Op: "cli", CLIKind: "upgrade-install", Chart: gst.Group[i].Chart, NoHooks: gst.Group[i].NoHooks, Values: gst.Group[i].Values,
				CLI: []string{"upgrade", "rel", "@CHART@", "-n", "ns1", "-f", "@VALUES@", "--install"}}
			if cli.NoHooks {
				cli.CLI = append(cli.CLI, "--no-hooks")
			}
			gst.Group[i] = cli
		}
	}
	p.Steps = append(p.Steps, gst)
	if n == 3 || g.Chance(0.3) {
		p.Policy = "pct"
		p.PCTPrio = []int{g.N(100), g.N(100), g.N(100)}
		d := 1 + g.N(3)
		for i := 0; i < d-1; i++ {
			p.PCT = append(p.PCT, 1+g.N(60))
		}
		p.Variant = fmt.Sprintf("pct-%d", n)
	} else {
		p.Policy = "uniform"
		p.Variant = fmt.Sprintf("uniform-%d", n)
	}
	if len(gst.Faults) > 0 {
		p.Variant += "-atomic-rollback"
	}
	p.Schedule = g.Schedule(160)
	if tier != "race" && g.Chance(0.1) {
		// name re-use race: the history holds one uninstalled revision; two installs (at least one with --replace) arrive,
		// the second is held back until some point inside the first (a single priority change point)
		p.Steps = []Step{
			{Op: &OpSpec{Op: "install", Chart: 0}},
			{Op: &OpSpec{Op: "uninstall", KeepHistory: true}},
		}
		if g.Chance(0.6) {
			// … or two old revisions, the OLDEST of them failed: a first install the cluster refused, a replace, an uninstall
			first := Step{Op: &OpSpec{Op: "install", Chart: 0, NoHooks: true}}
			first.Faults = []FaultSpec{{Kind: FReject, Code: 403, Pred: &Pred{Storage: boolp(false), Mutating: boolp(true), PathHas: "/namespaces/", Nth: 1}}}
			p.Steps = []Step{
				first,
				{Op: &OpSpec{Op: "install", Chart: 0, Replace: true}},
				{Op: &OpSpec{Op: "uninstall", KeepHistory: true}},
			}
		}
		a := OpSpec{Op: "install", Chart: g.N(len(p.Charts)), Replace: true, NoHooks: g.Chance(0.5), Values: g.UserValues()}
		b := OpSpec{Op: "install", Chart: g.N(len(p.Charts)), Replace: g.Chance(0.8), NoHooks: g.Chance(0.5), Values: g.UserValues()}
		p.Steps = append(p.Steps, Step{Group: []OpSpec{a, b}})
		p.Policy = "pct"
		p.PCTPrio = []int{90, 10, 50}
		p.PCT = []int{3 + g.N(70)}
		p.Variant = "pct-2-name-reuse"
	}
	if tier == "race" {
		p.CoRelease = g.Pick("sched", "sched", "inner")
		p.Variant = "race-" + p.CoRelease
		if g.Chance(0.7) {
			p.Backend = "memory"
		}
		if g.Chance(0.12) {
			// one Secrets/ConfigMaps backend as Configuration.Init builds it, shared by several goroutines; in half of the
			// runs the Kubernetes client cannot be constructed
			p.Backend = g.Pick("secrets", "configmaps")
			p.CoRelease = "inner"
			p.Variant = "race-lazy-" + g.Pick("ok", "fail")
		}
	}
	return p.Clone()
}
