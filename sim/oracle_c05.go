package sim

// C05 — rendering is deterministic and sees only the chart, values and
// release data (rendersim). There is no seam to park at inside a render; what
// the simulator controls is the environment (variables, working directory,
// host files, DNS resolver) and the repetition / concurrency structure.

import (
	"context"
	"encoding/json"
	"errors"
	"fmt"
	"io"
	"net"
	"net/http"
	"os"
	"path/filepath"
	"runtime"
	"sort"
	"strings"
	"sync"
	"sync/atomic"
	"testing"
	"time"

	"helm.sh/helm/v4/pkg/action"
	chart "helm.sh/helm/v4/pkg/chart/v2"
	chartutil "helm.sh/helm/v4/pkg/chart/v2/util"
	"helm.sh/helm/v4/pkg/engine"
	"k8s.io/client-go/rest"
)

type RenderSpec struct {
	K          int               `json:"k"` // sequential renders
	G          int               `json:"g"` // concurrent renders
	SubNotes   bool              `json:"subNotes,omitempty"`
	DNS        bool              `json:"dns,omitempty"`
	Env        map[string]string `json:"env,omitempty"`        // variables set for the perturbed renders
	SchemaRef  string            `json:"schemaRef,omitempty"`  // "", "abs", "rel", "dotdot": how the schema $ref points at the canary file
	Permute    []int             `json:"permute,omitempty"`    // seeds for order permutations of templates/files/dependencies
	Canaries   []string          `json:"canaries,omitempty"`   // contents the canary file takes
	UsesEnv    bool              `json:"usesEnv,omitempty"`    // a template calls env/expandenv (must fail identically everywhere)
	UsesDNS    bool              `json:"usesDNS,omitempty"`    // a template calls getHostByName
	FilesProbe bool              `json:"filesProbe,omitempty"` // a template tries to read host files through .Files
	Mutates    bool              `json:"mutates,omitempty"`    // a template writes into .Values with `set`: renders must not share one values map
}

const canaryToken = "VERIF-CANARY-7f3a9c"

type renderOut struct {
	Err      string
	Manifest string
	Hooks    string
	Notes    string
}

func (r renderOut) key() string {
	b, _ := json.Marshal(r)
	return string(b)
}

func renderOnce(cs *ChartSpec, vals map[string]interface{}, rs *RenderSpec, ch *chart.Chart) renderOut {
	cfg := &action.Configuration{}
	in := action.NewInstall(cfg)
	in.DryRun = true
	in.DryRunOption = "true"
	in.ClientOnly = true
	in.Replace = true
	in.ReleaseName = "rel"
	in.Namespace = "ns1"
	in.SubNotes = rs.SubNotes
	in.EnableDNS = rs.DNS
	if ch == nil {
		ch = BuildChart(cs)
	}
	var out renderOut
	func() {
		defer func() {
			if r := recover(); r != nil {
				out.Err = fmt.Sprintf("panic: %v", r)
			}
		}()
		rel, err := in.Run(ch, deepCopyMap(vals))
		if err != nil {
			out.Err = err.Error()
		}
		if rel != nil {
			out.Manifest = rel.Manifest
			if rel.Info != nil {
				out.Notes = rel.Info.Notes
			}
			var hs []string
			for _, h := range rel.Hooks {
				hs = append(hs, fmt.Sprintf("%s|%s|%s|%d|%v|%v|%s", h.Name, h.Kind, h.Path, h.Weight, h.Events, h.DeletePolicies, h.Manifest))
			}
			out.Hooks = strings.Join(hs, "\n#\n")
		}
	}()
	return out
}

func permuted[T any](xs []T, seed int) []T {
	out := append([]T{}, xs...)
	// deterministic shuffle from the seed
	s := uint64(seed)*2862933555777941757 + 3037000493
	for i := len(out) - 1; i > 0; i-- {
		s = s*6364136223846793005 + 1442695040888963407
		j := int((s >> 33) % uint64(i+1))
		out[i], out[j] = out[j], out[i]
	}
	return out
}

func permuteChart(ch *chart.Chart, seed int) {
	ch.Templates = permuted(ch.Templates, seed)
	ch.Files = permuted(ch.Files, seed+1)
	deps := permuted(ch.Dependencies(), seed+2)
	ch.SetDependencies(deps...)
	if ch.Metadata != nil {
		ch.Metadata.Dependencies = permuted(ch.Metadata.Dependencies, seed+3)
	}
}

var resolverCalls atomic.Int64

// directRT answers requests from a simulated API server directly (no scheduler): used by the cluster-connected render.
type directRT struct {
	srv *APIServer
	n   *atomic.Int64
}

func (d directRT) RoundTrip(req *http.Request) (*http.Response, error) {
	var body []byte
	if req.Body != nil {
		body, _ = io.ReadAll(req.Body)
		req.Body.Close()
	}
	d.n.Add(1)
	return d.srv.Handle(req.Method, req.URL.Path, req.URL.Query(), req.Header.Get("Content-Type"), body).HTTP(req), nil
}

func installCountingResolver() func() {
	old := net.DefaultResolver
	net.DefaultResolver = &net.Resolver{
		PreferGo: true,
		Dial: func(ctx context.Context, network, address string) (net.Conn, error) {
			resolverCalls.Add(1)
			return nil, errors.New("simulated network: no DNS")
		},
	}
	return func() { net.DefaultResolver = old }
}

// ExecuteC05 renders one case under every perturbation and compares outputs.
func ExecuteC05(t *testing.T, plan *Plan) *RunResult {
	res := &RunResult{Check: plan.Check, Seed: plan.Seed, Index: plan.Index, Variant: plan.Variant, FaultsFired: map[string]int{}, Probes: map[string]int{}}
	t0 := time.Now()
	defer func() { res.WallMs = float64(time.Since(t0).Microseconds()) / 1000 }()
	rs := plan.Render
	cs := &plan.Charts[0]
	vals := plan.Steps[0].Op.Values
	violate := func(clause, cause, detail string) {
		res.Violations = append(res.Violations, Violation{"C05", clause, "render", cause, detail, 0})
	}
	dir, err := os.MkdirTemp("", "verif-c05-")
	if err != nil {
		res.Infra = err.Error()
		return res
	}
	defer os.RemoveAll(dir)
	canaryPath := filepath.Join(dir, "canary.json")
	// the chart is built with the canary path substituted into its schema / templates
	spec := *cs.cloneSpec()
	subst := func(s string) string {
		s = strings.ReplaceAll(s, "@CANARY_ABS@", canaryPath)
		s = strings.ReplaceAll(s, "@CANARY_URL@", "file://"+canaryPath)
		return s
	}
	spec.Schema = subst(spec.Schema)
	for k, v := range spec.RawFiles {
		spec.RawFiles[k] = subst(v)
	}
	restore := installCountingResolver()
	defer restore()
	origWD, _ := os.Getwd()
	defer os.Chdir(origWD)
	os.Chdir(dir)
	os.Remove(canaryPath)

	// ---- baseline ----
	resolverCalls.Store(0)
	base := renderOnce(&spec, vals, rs, nil)
	res.Checks++
	nRenders := 1
	compare := func(what string, got renderOut) bool {
		nRenders++
		res.Checks++
		if got.key() == base.key() {
			return true
		}
		field := "error"
		switch {
		case got.Err != base.Err:
			field = "error"
		case got.Manifest != base.Manifest:
			field = "manifest"
		case got.Hooks != base.Hooks:
			field = "hooks"
		case got.Notes != base.Notes:
			field = "notes"
		}
		// attribution: if plain repetition already changes the outcome, the perturbation is not the cause
		cause := what + ":" + field
		if what == "repeat" {
			cause = "repeat"
		} else {
			for i := 0; i < 8; i++ {
				if renderOnce(&spec, vals, rs, nil).key() != base.key() {
					cause = "repeat"
					break
				}
			}
		}
		violate("identical-output", cause, fmt.Sprintf("%s differs under perturbation %q: baseline %q vs %q", field, what, trunc(pick(base, field), 300), trunc(pick(got, field), 300)))
		return false
	}
	// (a) repetition: every render draws fresh map iteration orders
	for i := 0; i < rs.K; i++ {
		if !compare("repeat", renderOnce(&spec, vals, rs, nil)) {
			goto done
		}
	}
	// (a2) the SAME in-memory chart rendered again and again (an SDK user keeps the loaded chart): same output, and the
	// chart's own defaults are not written to by rendering
	{
		shared := BuildChart(&spec)
		// (the first operation on a loaded chart processes its dependencies, which by design rewrites the chart's values
		// once; what is compared is the chart after that against the chart after all further renders)
		renderOnce(&spec, map[string]interface{}{}, rs, shared)
		nRenders++
		beforeVals, _ := json.Marshal(shared.Values)
		for _, v := range []map[string]interface{}{vals, {}, {}} {
			first := renderOnce(&spec, v, rs, shared)
			second := renderOnce(&spec, v, rs, shared)
			nRenders += 2
			res.Checks++
			if first.key() != second.key() {
				violate("identical-output", "same-chart-object-rendered-twice", fmt.Sprintf("two renders of one loaded chart object differ: %q vs %q", trunc(first.Manifest+first.Err, 300), trunc(second.Manifest+second.Err, 300)))
				goto done
			}
		}
		if afterVals, _ := json.Marshal(shared.Values); string(afterVals) != string(beforeVals) {
			violate("inputs-unmodified", "chart-defaults-written-by-render", fmt.Sprintf("rendering changed the chart's default values: %s -> %s", trunc(string(beforeVals), 200), trunc(string(afterVals), 200)))
			goto done
		}
	}
	// (c) permuted order of templates, files and dependencies
	for _, seed := range rs.Permute {
		ch := BuildChart(&spec)
		permuteChart(ch, seed)
		if !compare("load-order", renderOnce(&spec, vals, rs, ch)) {
			goto done
		}
	}
	// (d) environment variables (also names the templates try to read)
	{
		var set []string
		for k, v := range rs.Env {
			os.Setenv(k, v)
			set = append(set, k)
		}
		ok := compare("environment", renderOnce(&spec, vals, rs, nil))
		for _, k := range set {
			os.Unsetenv(k)
		}
		if !ok {
			goto done
		}
	}
	// (e) working directory
	{
		sub := filepath.Join(dir, "elsewhere", "deep")
		os.MkdirAll(sub, 0o755)
		os.WriteFile(filepath.Join(dir, "elsewhere", "canary.json"), []byte(`{"type":"string","title":"`+canaryToken+`"}`), 0o644)
		os.Chdir(sub)
		ok := compare("working-directory", renderOnce(&spec, vals, rs, nil))
		os.Chdir(dir)
		if !ok {
			goto done
		}
	}
	// (f) host file content outside the chart
	for i, content := range rs.Canaries {
		os.WriteFile(canaryPath, []byte(content), 0o644)
		os.WriteFile(filepath.Join(dir, "..", filepath.Base(dir)+"-canary.json"), []byte(content), 0o644)
		ok := compare(fmt.Sprintf("host-file-content(%s)", rs.SchemaRef), renderOnce(&spec, vals, rs, nil))
		os.Remove(filepath.Join(dir, "..", filepath.Base(dir)+"-canary.json"))
		if !ok {
			_ = i
			goto done
		}
	}
	os.Remove(canaryPath)
	// (b) concurrent renders: G engine renders on the SAME chart and values, and G dry-run installs on copies
	if rs.G > 0 && base.Err == "" {
		shared := BuildChart(&spec)
		// (a chart that writes into .Values changes the map it is given; sharing that map between renders is the caller's mistake)
		if err := chartutil.ProcessDependencies(shared, deepCopyMap(vals)); err == nil && !rs.Mutates {
			caps := chartutil.DefaultCapabilities.Copy()
			rv, err := chartutil.ToRenderValuesWithSchemaValidation(shared, deepCopyMap(vals), chartutil.ReleaseOptions{Name: "rel", Namespace: "ns1", Revision: 1, IsInstall: true}, caps, true)
			if err == nil {
				before, _ := json.Marshal(struct {
					C *chart.Chart
					V chartutil.Values
				}{shared, rv})
				ref, rerr := engine.Render(shared, rv)
				outs := make([]map[string]string, rs.G)
				errs := make([]error, rs.G)
				var wg sync.WaitGroup
				for i := 0; i < rs.G; i++ {
					wg.Add(1)
					go func(i int) {
						defer wg.Done()
						defer func() {
							if r := recover(); r != nil {
								errs[i] = fmt.Errorf("panic: %v", r)
							}
						}()
						outs[i], errs[i] = engine.Render(shared, rv)
					}(i)
				}
				wg.Wait()
				after, _ := json.Marshal(struct {
					C *chart.Chart
					V chartutil.Values
				}{shared, rv})
				res.Checks += 2
				for i := 0; i < rs.G; i++ {
					nRenders++
					if (errs[i] == nil) != (rerr == nil) || !mapsEqual(outs[i], ref) {
						violate("identical-output", "concurrent-engine-render", fmt.Sprintf("concurrent render %d on a shared chart differs from the sequential one (err %v vs %v)", i, errs[i], rerr))
						goto done
					}
				}
				if string(before) != string(after) {
					violate("inputs-unmodified", "concurrent-engine-render", "chart or render values were modified by rendering")
					goto done
				}
				res.Probes["concurrent-engine-renders"] += rs.G
			}
		}
		couts := make([]renderOut, rs.G)
		var wg sync.WaitGroup
		for i := 0; i < rs.G; i++ {
			wg.Add(1)
			go func(i int) { defer wg.Done(); couts[i] = renderOnce(&spec, vals, rs, nil) }(i)
		}
		wg.Wait()
		for i := 0; i < rs.G; i++ {
			if !compare("concurrent-dry-run-install", couts[i]) {
				goto done
			}
		}
	}
	// (h) renders of DIFFERENT charts running at the same time in one process: each must equal its own sequential render
	// (state shared between renders through the engine's packages shows up here; under the race detector also as a race)
	if rs.G > 0 && base.Err == "" {
		variants := []string{"config/*", "config/a*", "config/?.txt", "config/b*", "config/[ab].txt", "**/a.txt"}
		type one struct {
			c  *chart.Chart
			rv chartutil.Values
		}
		build := func(i int) (*one, error) {
			sp := *spec.cloneSpec()
			pat := variants[i%len(variants)]
			for k, v := range sp.RawFiles {
				sp.RawFiles[k] = strings.ReplaceAll(v, "config/*", pat)
			}
			sp.RawFiles["templates/variant.yaml"] = fmt.Sprintf("apiVersion: v1\nkind: ConfigMap\nmetadata:\n  name: c05-variant\ndata:\n  v: %q\n  n: {{ regexReplaceAll \"[a-z]+%d\" \"abc%d-x\" \"r\" | quote }}\n  files: {{ range $p, $_ := .Files.Glob %q }}{{ $p }};{{ end }}\n", pat, i, i, pat)
			c := BuildChart(&sp)
			if err := chartutil.ProcessDependencies(c, deepCopyMap(vals)); err != nil {
				return nil, err
			}
			rv, err := chartutil.ToRenderValuesWithSchemaValidation(c, deepCopyMap(vals), chartutil.ReleaseOptions{Name: "rel", Namespace: "ns1", Revision: 1, IsInstall: true}, chartutil.DefaultCapabilities.Copy(), true)
			if err != nil {
				return nil, err
			}
			return &one{c, rv}, nil
		}
		n := 2 + rs.G
		refs := make([]map[string]string, n)
		refErr := make([]error, n)
		ok := true
		for i := 0; i < n && ok; i++ {
			o, err := build(i)
			if err != nil {
				ok = false
				break
			}
			refs[i], refErr[i] = engine.Render(o.c, o.rv)
		}
		if ok {
			outs := make([]map[string]string, n)
			errs := make([]error, n)
			const reps = 3
			inputs := make([][]*one, n) // fresh chart and values per render: a chart may write into its .Values
			for i := 0; i < n; i++ {
				for rep := 0; rep < reps; rep++ {
					o, _ := build(i)
					inputs[i] = append(inputs[i], o)
				}
			}
			if plan.CoRelease == "render" {
				// race-detector population: let the renders overlap for real, otherwise whichever lock the first render
				// happens to release orders it before the next one and hides an unsynchronised access
				defer runtime.GOMAXPROCS(runtime.GOMAXPROCS(8))
			}
			var wg sync.WaitGroup
			start := make(chan struct{})
			for i := 0; i < n; i++ {
				wg.Add(1)
				go func(i int) {
					defer wg.Done()
					defer func() {
						if r := recover(); r != nil {
							errs[i] = fmt.Errorf("panic: %v", r)
						}
					}()
					<-start
					for rep := 0; rep < reps; rep++ {
						outs[i], errs[i] = engine.Render(inputs[i][rep].c, inputs[i][rep].rv)
						if errs[i] != nil || !mapsEqual(outs[i], refs[i]) {
							return
						}
						runtime.Gosched()
					}
				}(i)
			}
			close(start)
			wg.Wait()
			res.Checks++
			for i := 0; i < n; i++ {
				nRenders += 3
				if (errs[i] == nil) != (refErr[i] == nil) || (refErr[i] == nil && !mapsEqual(outs[i], refs[i])) {
					violate("identical-output", "concurrent-different-charts", fmt.Sprintf("chart variant %d (glob %q) rendered concurrently with other charts differs from its own sequential render (err %v vs %v)", i, variants[i%len(variants)], errs[i], refErr[i]))
					break
				}
			}
			res.Probes["concurrent-different-charts"] += n
		}
	}
	// (i) client-only installs ("helm template") with DIFFERENT --api-versions running at the same time: what
	// .Capabilities.APIVersions answers belongs to each render alone
	if rs.G > 0 && base.Err == "" {
		tmpl := "apiVersion: v1\nkind: ConfigMap\nmetadata:\n  name: c05-caps\ndata:\n{{- range $i := until 6 }}\n  has{{ $i }}: {{ $.Capabilities.APIVersions.Has (printf \"verif.example/c05v%d\" $i) | quote }}\n{{- end }}\n  n: {{ len .Capabilities.APIVersions | quote }}\n"
		one := func(i int) renderOut {
			sp := *spec.cloneSpec()
			sp.RawFiles["templates/caps.yaml"] = tmpl
			cfg := &action.Configuration{}
			in := action.NewInstall(cfg)
			in.DryRun, in.DryRunOption, in.ClientOnly, in.Replace = true, "true", true, true
			in.ReleaseName, in.Namespace = "rel", "ns1"
			in.APIVersions = chartutil.VersionSet{fmt.Sprintf("verif.example/c05v%d", i%6), fmt.Sprintf("verif.example/extra%d", i)}
			var out renderOut
			func() {
				defer func() {
					if r := recover(); r != nil {
						out.Err = fmt.Sprintf("panic: %v", r)
					}
				}()
				rel, err := in.Run(BuildChart(&sp), deepCopyMap(vals))
				if err != nil {
					out.Err = err.Error()
				}
				if rel != nil {
					out.Manifest = rel.Manifest
				}
			}()
			return out
		}
		n := 2 + rs.G
		refs := make([]renderOut, n)
		for i := range refs {
			refs[i] = one(i)
		}
		outs := make([]renderOut, n)
		var wg sync.WaitGroup
		start := make(chan struct{})
		for i := 0; i < n; i++ {
			wg.Add(1)
			go func(i int) {
				defer wg.Done()
				<-start
				for rep := 0; rep < 3; rep++ {
					outs[i] = one(i)
					if outs[i].key() != refs[i].key() {
						return
					}
					runtime.Gosched()
				}
			}(i)
		}
		close(start)
		wg.Wait()
		res.Checks++
		for i := 0; i < n; i++ {
			nRenders += 3
			if outs[i].key() != refs[i].key() {
				violate("identical-output", "concurrent-client-only-installs", fmt.Sprintf("client-only install %d (api-versions verif.example/c05v%d) run concurrently with others differs from its own sequential run: %q vs %q", i, i%6, trunc(outs[i].Manifest+outs[i].Err, 300), trunc(refs[i].Manifest+refs[i].Err, 300)))
				break
			}
		}
		res.Probes["concurrent-client-only-installs"] += n
	}
	// (g) render with a cluster connection (what a real install/upgrade or --dry-run=server does): the engine gets a
	// REST config; the simulated API server is empty, so lookup finds nothing and the output equals the client-only one,
	// and DNS stays disabled unless enabled
	if base.Err == "" {
		mk := func() (*chart.Chart, chartutil.Values, error) {
			c := BuildChart(&spec)
			if err := chartutil.ProcessDependencies(c, deepCopyMap(vals)); err != nil {
				return nil, nil, err
			}
			rv, err := chartutil.ToRenderValuesWithSchemaValidation(c, deepCopyMap(vals), chartutil.ReleaseOptions{Name: "rel", Namespace: "ns1", Revision: 1, IsInstall: true}, chartutil.DefaultCapabilities.Copy(), true)
			return c, rv, err
		}
		c1, rv1, e1 := mk()
		c2, rv2, e2 := mk()
		if e1 == nil && e2 == nil {
			var reqs atomic.Int64
			rcfg := &rest.Config{Host: "http://sim.cluster.local", Transport: directRT{NewAPIServer(time.Now), &reqs}, QPS: -1,
				ContentConfig: rest.ContentConfig{ContentType: "application/json", AcceptContentTypes: "application/json"}}
			var plain engine.Engine
			plain.EnableDNS = rs.DNS
			ref, rerr := plain.Render(c1, rv1)
			conn := engine.New(rcfg)
			conn.EnableDNS = rs.DNS
			got, gerr := conn.Render(c2, rv2)
			nRenders++
			res.Checks++
			// (a list lookup legitimately returns a list object on a live cluster: only charts without lookup are compared)
			_, usesLookup := spec.RawFiles["templates/lookup.yaml"]
			if usesLookup {
				res.Probes["cluster-connected-lookup-chart"]++
			} else if (rerr == nil) != (gerr == nil) || (rerr == nil && !mapsEqual(ref, got)) {
				violate("identical-output", "cluster-connected", fmt.Sprintf("rendering with a connection to an empty cluster differs from the client-only render (err %v vs %v)", gerr, rerr))
			}
			res.Probes["cluster-connected-renders"]++
			if reqs.Load() > 0 {
				res.Probes["cluster-connected-lookup-requests"]++
			}
		}
	}
done:
	// no canary token anywhere in any output
	res.Checks += 2
	for _, f := range []string{base.Manifest, base.Hooks, base.Notes, base.Err} {
		for _, tok := range append([]string{canaryToken}, envTokens(rs)...) {
			if tok != "" && strings.Contains(f, tok) {
				violate("no-host-data", "canary-in-output", fmt.Sprintf("output contains host data %q", tok))
			}
		}
	}
	calls := resolverCalls.Load()
	if !rs.DNS && calls > 0 {
		violate("no-dns-unless-enabled", "resolver-called", fmt.Sprintf("the resolver was called %d time(s) with DNS disabled", calls))
	}
	if rs.DNS && rs.UsesDNS && base.Err == "" {
		if calls > 0 {
			res.Probes["dns-enabled-resolver-called"]++
		} else {
			res.Probes["dns-enabled-resolver-NOT-called"]++
		}
	}
	if rs.UsesEnv {
		if base.Err == "" {
			violate("no-env-functions", "env-function-available", "a template calling env/expandenv rendered without error")
		} else {
			res.Probes["env-function-rejected"]++
		}
	}
	if base.Err == "" {
		res.Probes["rendered-ok"]++
	} else {
		res.Probes["render-error"]++
	}
	res.Outcome = fmt.Sprintf("renders=%d err=%q manifest=%dB hooks=%dB notes=%dB subnotes=%v dns=%v schemaRef=%s", nRenders, trunc(base.Err, 60), len(base.Manifest), len(base.Hooks), len(base.Notes), rs.SubNotes, rs.DNS, rs.SchemaRef)
	res.Signature = bodyHash([]byte(strings.ReplaceAll(base.key(), dir, "<TMP>") + fmt.Sprint(rs.SchemaRef, rs.DNS, rs.SubNotes)))
	res.NonTrivial = nRenders > 2
	res.Events = nRenders
	res.EventHash = bodyHash([]byte(strings.ReplaceAll(base.key(), dir, "<TMP>")))
	for _, v := range res.Violations {
		if v.Cause == "repeat" {
			// the finding IS that the output changes from render to render: there is no stable output to hash
			res.EventHash = bodyHash([]byte("output differs between repetitions"))
		}
	}
	return res
}

func envTokens(rs *RenderSpec) []string {
	var out []string
	for _, v := range rs.Env {
		out = append(out, v)
	}
	sort.Strings(out)
	return out
}

func pick(r renderOut, field string) string {
	switch field {
	case "manifest":
		return r.Manifest
	case "hooks":
		return r.Hooks
	case "notes":
		return r.Notes
	}
	return r.Err
}

func mapsEqual(a, b map[string]string) bool {
	if len(a) != len(b) {
		return false
	}
	for k, v := range a {
		if b[k] != v {
			return false
		}
	}
	return true
}

func genC05(seed, index uint64, tier string) *Plan {
	g := NewGen(seed, index, 5)
	p := &Plan{Check: "C05", Seed: seed, Index: index, Namespace: "ns1", Release: "rel", Backend: "none"}
	co := g.SwarmChartOpts()
	co.Hooks = g.Chance(0.6)
	co.Notes = true
	co.Partials = g.Chance(0.5)
	co.Versions = 1
	cs := g.ChartFamily(co)[0]
	cs.Values["mapvals"] = map[string]interface{}{"zeta": "1", "alpha": "2", "mid": "3", "beta": g.Word(), "k9": "9", "k10": "10"}
	cs.Values["nested"] = map[string]interface{}{"z": map[string]interface{}{"b": float64(1), "a": []interface{}{"x", "y"}}, "a": "first", "m": map[string]interface{}{"q": true}}
	cs.Values["tplstr"] = "{{ .Release.Name }}-{{ .Values.a }}-{{ include \"verif.c05\" . }}"
	cs.RawFiles = map[string]string{
		"templates/_c05.tpl": "{{- define \"verif.c05\" -}}inc-{{ .Chart.Name }}{{- end -}}\n",
		"templates/range.yaml": "apiVersion: v1\nkind: ConfigMap\nmetadata:\n  name: c05-range\ndata:\n{{- range $k, $v := .Values.mapvals }}\n  {{ $k }}: {{ $v | quote }}\n{{- end }}\n" +
			"  keys: {{ keys .Values.mapvals | sortAlpha | join \",\" | quote }}\n",
		"templates/toyaml.yaml": "apiVersion: v1\nkind: ConfigMap\nmetadata:\n  name: c05-toyaml\n  annotations:\n    tpl: {{ tpl .Values.tplstr . | quote }}\ndata:\n  nested: |\n{{ toYaml .Values.nested | indent 4 }}\n  json: {{ toJson .Values.nested | quote }}\n",
		"templates/files.yaml":  "apiVersion: v1\nkind: ConfigMap\nmetadata:\n  name: c05-files\ndata:\n{{ (.Files.Glob \"config/*\").AsConfig | indent 2 }}\n  one: {{ .Files.Get \"config/a.txt\" | quote }}\n",
		"config/a.txt":          "file a\n",
		"config/b.txt":          "file b " + g.Word() + "\n",
		"config/c.bin":          "c\x01\x02",
	}
	rs := &RenderSpec{K: 6 + g.N(6), G: 2 + g.N(4), SubNotes: g.Chance(0.6), DNS: g.Chance(0.3)}
	if tier == "thorough" {
		rs.K += 8
	}
	// several subcharts with their own NOTES.txt
	nsub := g.N(4)
	for i := 0; i < nsub; i++ {
		sc := SubchartSpec{Name: fmt.Sprintf("sub%d", i), Values: map[string]interface{}{"s": g.Word()}, Notes: fmt.Sprintf("notes of sub%d: {{ .Values.s }}\n", i)}
		sc.Slots = []ResSlot{{Kind: "ConfigMap", Name: fmt.Sprintf("sub%d-cm", i), File: "s.yaml", Marker: g.Marker(), Data: map[string]string{"s": "$s"}}}
		cs.Subcharts = append(cs.Subcharts, sc)
	}
	if g.Chance(0.35) {
		rs.FilesProbe = true
		cs.RawFiles["templates/hostfiles.yaml"] = "apiVersion: v1\nkind: ConfigMap\nmetadata:\n  name: c05-hostfiles\ndata:\n  abs: {{ .Files.Get \"@CANARY_ABS@\" | quote }}\n  up: {{ .Files.Get \"../canary.json\" | quote }}\n  upup: {{ .Files.Get \"../../canary.json\" | quote }}\n  glob: {{ len (.Files.Glob \"/**\") | quote }}\n"
	}
	if g.Chance(0.35) {
		// templates of one chart share .Values: the result depends on the execution order, which must be fixed
		rs.Mutates = true
		cs.RawFiles["templates/a-reader.yaml"] = "apiVersion: v1\nkind: ConfigMap\nmetadata:\n  name: c05-reader-a\ndata:\n  seen: {{ .Values.computed | default \"unset\" | quote }}\n"
		cs.RawFiles["templates/m-writer.yaml"] = "{{- $_ := set .Values \"computed\" \"derived\" }}\napiVersion: v1\nkind: ConfigMap\nmetadata:\n  name: c05-writer\ndata:\n  wrote: \"yes\"\n"
		cs.RawFiles["templates/n-nested-writer.yaml"] = "{{- $_ := set .Values.nested \"touched\" \"yes\" }}{{- $_ := set .Values.nested.z \"a\" (append .Values.nested.z.a \"more\") }}\napiVersion: v1\nkind: ConfigMap\nmetadata:\n  name: c05-nested-writer\ndata:\n  n: {{ len .Values.nested.z.a | quote }}\n"
		cs.RawFiles["templates/z-reader.yaml"] = "apiVersion: v1\nkind: ConfigMap\nmetadata:\n  name: c05-reader-z\ndata:\n  seen: {{ .Values.computed | default \"unset\" | quote }}\n"
		cs.RawFiles["templates/sub/q-reader.yaml"] = "apiVersion: v1\nkind: ConfigMap\nmetadata:\n  name: c05-reader-q\ndata:\n  seen: {{ .Values.computed | default \"unset\" | quote }}\n"
	}
	if g.Chance(0.3) {
		// several hooks that share kind and metadata.name but live in different files (one Job per event is a common layout):
		// their order in the release must be fixed as well
		hk := func(ev, w string) string {
			return "apiVersion: batch/v1\nkind: Job\nmetadata:\n  name: {{ .Release.Name }}-db-migrate\n  annotations:\n    \"helm.sh/hook\": " + ev + "\n    \"helm.sh/hook-weight\": \"" + w + "\"\nspec:\n  template:\n    spec:\n      restartPolicy: Never\n      containers:\n      - name: m\n        image: \"migrate:" + ev + "\"\n"
		}
		cs.RawFiles["templates/migrate-install.yaml"] = hk("pre-install", "0")
		cs.RawFiles["templates/migrate-upgrade.yaml"] = hk("pre-upgrade", "0")
		cs.RawFiles["templates/jobs/migrate-rollback.yaml"] = hk("pre-rollback", "0")
		cs.RawFiles["templates/a-migrate-both.yaml"] = hk("post-install,post-upgrade", "0")
	}
	if g.Chance(0.03) {
		// one file that renders to many hundreds of documents (a range over a list): their order within the file is part of
		// the output however many there are
		cs.RawFiles["templates/many.yaml"] = "{{- range $i := until 560 }}\n---\napiVersion: v1\nkind: ConfigMap\nmetadata:\n  name: c05-many-{{ $i }}\n{{- if eq (mod $i 100) 0 }}\n  annotations:\n    \"helm.sh/hook\": post-install\n{{- end }}\ndata:\n  i: \"{{ $i }}\"\n{{- end }}\n"
	}
	if g.Chance(0.08) {
		// two templates fail: the reported error must always be the same one
		cs.RawFiles["templates/fail-b.yaml"] = "{{ fail \"failure B\" }}\n"
		cs.RawFiles["templates/fail-k.yaml"] = "{{ required \"failure K\" .Values.doesnotexist }}\n"
		cs.RawFiles["templates/sub/fail-a.yaml"] = "{{ fail \"failure A\" }}\n"
	}
	if g.Chance(0.12) {
		rs.UsesEnv = true
		fn := g.Pick("env \"VERIF_SECRET\"", "expandenv \"$VERIF_SECRET\"", "env \"HOME\"")
		cs.RawFiles["templates/env.yaml"] = "apiVersion: v1\nkind: ConfigMap\nmetadata:\n  name: c05-env\ndata:\n  e: {{ " + fn + " | quote }}\n"
	}
	if g.Chance(0.25) {
		cs.RawFiles["templates/lookup.yaml"] = "apiVersion: v1\nkind: ConfigMap\nmetadata:\n  name: c05-lookup\ndata:\n  found: {{ lookup \"v1\" \"ConfigMap\" \"kube-system\" \"kube-root-ca.crt\" | toJson | quote }}\n  list: {{ len (lookup \"v1\" \"Secret\" \"\" \"\") | quote }}\n"
	}
	if g.Chance(0.25) {
		// a common idiom: take what lookup returns and fill it in when nothing was found. Without a cluster every call must
		// start from an empty result of its own
		cs.RawFiles["templates/lookupset.yaml"] = "{{- $s := lookup \"v1\" \"Secret\" .Release.Namespace \"c05-generated\" }}\n{{- $state := \"fresh\" }}\n{{- if $s.data }}{{ $state = \"found\" }}{{ else }}{{ $_ := set $s \"data\" (dict \"k\" (.Values.a | default \"none\" | toString)) }}{{ end }}\napiVersion: v1\nkind: ConfigMap\nmetadata:\n  name: c05-lookupset\ndata:\n  state: {{ $state | quote }}\n  k: {{ $s.data.k | quote }}\n"
	}
	if g.Chance(0.3) {
		rs.UsesDNS = true
		cs.RawFiles["templates/dns.yaml"] = "apiVersion: v1\nkind: ConfigMap\nmetadata:\n  name: c05-dns\ndata:\n  ip: {{ getHostByName \"verif-canary.example\" | quote }}\n"
	}
	// (since the file:// loader was removed every $ref to a host file ends in the same error; keep those a minority so that
	// most runs get as far as comparing rendered output)
	switch g.Weighted(1, 1, 1, 1, 12) {
	case 0:
		rs.SchemaRef = "abs"
		cs.Schema = `{"$ref": "@CANARY_URL@"}`
	case 1:
		rs.SchemaRef = "nested-abs"
		cs.Schema = `{"type":"object","properties":{"a":{"$ref": "@CANARY_URL@"}}}`
	case 2:
		rs.SchemaRef = "rel"
		cs.Schema = `{"type":"object","properties":{"a":{"$ref": "canary.json"}}}`
	case 3:
		rs.SchemaRef = "dotdot"
		cs.Schema = `{"type":"object","properties":{"a":{"$ref": "../canary.json"}}}`
	default:
		rs.SchemaRef = "none"
		if g.Chance(0.5) {
			cs.Schema = `{"type":"object"}`
		}
	}
	rs.Canaries = []string{`{"type":"string"}`, `{"type":"number","title":"` + canaryToken + `"}`, `{"type":"object"}`, `not json ` + canaryToken}
	rs.Env = map[string]string{"VERIF_SECRET": "env-" + canaryToken, "HOME": "/home/" + canaryToken, "HELM_NAMESPACE": "ns-" + canaryToken, "VERIF_EXTRA": "extra-" + canaryToken}
	rs.Permute = []int{g.N(1000), g.N(1000)}
	p.Render = rs
	p.Charts = []ChartSpec{cs}
	p.Steps = []Step{{Op: &OpSpec{Op: "install", Chart: 0, Values: g.UserValues(), DryRun: true, ClientOnly: true}}}
	p.Variant = "render"
	if tier == "race" {
		// the same population under the race detector: fewer repetitions, the concurrent phases are what matters
		rs.K = 1
		rs.Permute = rs.Permute[:1]
		rs.Canaries = rs.Canaries[:1]
		p.Variant = "race-render"
		p.CoRelease = "render"
	}
	return p.Clone()
}
