package sim

// ChartSpec (pure data) -> in-memory *chart.Chart. Charts are never read from
// fixtures; every document carries a unique marker label so that it can be
// traced from template to manifest / hook list to live object to request log.

import (
	"encoding/base64"
	"fmt"
	"sort"
	"strings"

	chart "helm.sh/helm/v4/pkg/chart/v2"
)

const markerLabel = "verif/marker"

func sortedKeys[V any](m map[string]V) []string {
	ks := make([]string, 0, len(m))
	for k := range m {
		ks = append(ks, k)
	}
	sort.Strings(ks)
	return ks
}

// valueExpr renders a Data entry: "$a.b" reads .Values.a.b, "$$json" dumps all
// values, anything else is a literal.
func valueExpr(v string, b64 bool) string {
	switch {
	case v == "$$json":
		return "{{ .Values | toJson | quote }}"
	case v == "$$rel":
		return "{{ printf \"%s/%s/%d/%v/%v\" .Release.Name .Release.Namespace .Release.Revision .Release.IsInstall .Release.IsUpgrade | quote }}"
	case strings.HasPrefix(v, "$"):
		if b64 {
			return "{{ .Values." + v[1:] + " | toString | b64enc | quote }}"
		}
		return "{{ .Values." + v[1:] + " | toString | quote }}"
	default:
		if b64 {
			return fmt.Sprintf("%q", base64.StdEncoding.EncodeToString([]byte(v)))
		}
		return fmt.Sprintf("%q", v)
	}
}

func apiVersionOf(kind string) string {
	if r, ok := resByKind(kind); ok {
		return r.APIVersion()
	}
	return "other.example/v1"
}

// RenderSlot produces the template text of one document.
func RenderSlot(s ResSlot, partials bool) string {
	var b strings.Builder
	w := func(format string, a ...interface{}) { fmt.Fprintf(&b, format+"\n", a...) }
	switch s.Style {
	case "blankdoc":
		return "\n  \n"
	case "commentdoc":
		return "# only a comment " + s.Marker + "\n"
	case "comment":
		w("# leading comment for %s", s.Marker)
	case "blanklead":
		w("")
		w("")
	}
	if s.Group != "" {
		w("apiVersion: %s/v1", s.Group)
	} else if r, ok := resByKind(s.Kind); ok && s.APIVer != "" && r.Group != "" {
		w("apiVersion: %s/%s", r.Group, s.APIVer)
	} else {
		w("apiVersion: %s", apiVersionOf(s.Kind))
	}
	w("kind: %s", s.Kind)
	w("metadata:")
	w("  name: %s", s.Name)
	if s.NS != "" {
		w("  namespace: %s", s.NS)
	}
	w("  labels:")
	w("    %s: %s", markerLabel, s.Marker)
	if partials {
		w("    {{- include \"verif.labels\" . | nindent 4 }}")
	}
	for _, k := range sortedKeys(s.Labels) {
		w("    %s: %q", k, s.Labels[k])
	}
	ann := [][2]string{}
	if s.Keep != "" {
		ann = append(ann, [2]string{"helm.sh/resource-policy", s.Keep})
	}
	if s.Hook != nil {
		ev := strings.Join(s.Hook.Events, ",")
		if s.Hook.RawEvents != "" {
			ev = s.Hook.RawEvents
		}
		ann = append(ann, [2]string{"helm.sh/hook", ev})
		if s.Hook.Weight != nil {
			ws := fmt.Sprintf("%d", *s.Hook.Weight)
			if s.Hook.PadWeight > 0 {
				if *s.Hook.Weight < 0 {
					ws = fmt.Sprintf("-%0*d", s.Hook.PadWeight, -*s.Hook.Weight)
				} else {
					ws = fmt.Sprintf("%0*d", s.Hook.PadWeight, *s.Hook.Weight)
				}
			}
			ann = append(ann, [2]string{"helm.sh/hook-weight", ws})
		}
		if s.Hook.Policies != nil {
			sep := s.Hook.PolicySep
			if sep == "" {
				sep = ","
			}
			ann = append(ann, [2]string{"helm.sh/hook-delete-policy", strings.Join(s.Hook.Policies, sep)})
		}
	}
	for _, k := range sortedKeys(s.Annots) {
		ann = append(ann, [2]string{k, s.Annots[k]})
	}
	if len(ann) > 0 || s.Style == "embedded" {
		w("  annotations:")
		for _, a := range ann {
			w("    %s: %q", a[0], a[1])
		}
		if s.Style == "embedded" {
			// a multi-line string that itself holds a YAML stream and a PEM header: lines that merely contain "---"
			// inside a scalar are content, not document separators
			w("    verif/embedded: |")
			w("      first: doc")
			w("      ---")
			w("      second: doc")
			w("      --- ")
			w("      -----BEGIN CERTIFICATE-----")
			w("      last: line")
		}
	}
	img := s.Image
	if img == "" {
		img = "busybox:1"
	}
	switch s.Kind {
	case "ConfigMap":
		if len(s.Data) > 0 {
			w("data:")
			for _, k := range sortedKeys(s.Data) {
				w("  %s: %s", k, valueExpr(s.Data[k], false))
			}
		}
	case "Secret":
		w("type: Opaque")
		if len(s.Data) > 0 {
			w("data:")
			for _, k := range sortedKeys(s.Data) {
				w("  %s: %s", k, valueExpr(s.Data[k], true))
			}
		}
	case "ServiceAccount":
		if v, ok := s.Data["automount"]; ok {
			w("automountServiceAccountToken: %s", v)
		}
	case "Service":
		w("spec:")
		w("  selector:")
		w("    app: %s", s.Name)
		w("  ports:")
		for _, p := range s.Ports {
			w("  - name: p%d", p)
			w("    port: %d", p)
			w("    protocol: TCP")
			w("    targetPort: %d", p)
		}
	case "Deployment":
		w("spec:")
		w("  replicas: %d", s.Rep)
		w("  selector:")
		w("    matchLabels:")
		w("      app: %s", s.Name)
		w("  template:")
		w("    metadata:")
		w("      labels:")
		w("        app: %s", s.Name)
		w("    spec:")
		w("      containers:")
		w("      - name: main")
		w("        image: %s", img)
		if len(s.Data) > 0 {
			w("        env:")
			for _, k := range sortedKeys(s.Data) {
				w("        - name: %s", k)
				w("          value: %s", valueExpr(s.Data[k], false))
			}
		}
		if len(s.Ports) > 0 {
			w("        ports:")
			for _, p := range s.Ports {
				w("        - containerPort: %d", p)
				w("          protocol: TCP")
			}
		}
	case "Job":
		w("spec:")
		w("  template:")
		w("    spec:")
		w("      restartPolicy: Never")
		w("      containers:")
		w("      - name: main")
		w("        image: %s", img)
		if len(s.Data) > 0 {
			w("        env:")
			for _, k := range sortedKeys(s.Data) {
				w("        - name: %s", k)
				w("          value: %s", valueExpr(s.Data[k], false))
			}
		}
	case "Pod":
		w("spec:")
		w("  restartPolicy: Never")
		w("  containers:")
		w("  - name: main")
		w("    image: %s", img)
	case "Namespace":
	case "ClusterRole":
		w("rules:")
		w("- apiGroups: [\"\"]")
		w("  resources: [\"pods\"]")
		verbs := "get"
		if v, ok := s.Data["verbs"]; ok {
			verbs = v
		}
		w("  verbs: [%q]", verbs)
	default: // Widget and unknown kinds
		if len(s.Data) > 0 {
			w("spec:")
			for _, k := range sortedKeys(s.Data) {
				w("  %s: %s", k, valueExpr(s.Data[k], false))
			}
		}
	}
	out := b.String()
	if s.Cond != "" {
		out = "{{- if .Values." + s.Cond + " }}\n" + out + "{{- end }}\n"
	}
	if s.Style == "crlf" {
		out = strings.ReplaceAll(out, "\n", "\r\n")
	}
	return out
}

const helpersTpl = `{{- define "verif.labels" -}}
verif/chart: {{ .Chart.Name }}
{{- end -}}
`

func buildTemplates(slots []ResSlot, partials bool, notes string, sepStyle ...map[string]string) []*chart.File {
	var order []string
	byFile := map[string][]ResSlot{}
	for _, s := range slots {
		if _, ok := byFile[s.File]; !ok {
			order = append(order, s.File)
		}
		byFile[s.File] = append(byFile[s.File], s)
	}
	var files []*chart.File
	for _, f := range order {
		var docs []string
		for _, s := range byFile[f] {
			docs = append(docs, RenderSlot(s, partials))
		}
		sep := "---\n"
		text := ""
		style := ""
		if len(sepStyle) > 0 && sepStyle[0] != nil {
			style = sepStyle[0][f]
		}
		switch style {
		case "crlf": // a file written with Windows line endings throughout
			for i := range docs {
				docs[i] = strings.ReplaceAll(strings.ReplaceAll(docs[i], "\r\n", "\n"), "\n", "\r\n")
			}
			sep = "---\r\n"
		case "comment":
			sep = "--- # next document\n"
		case "spaces":
			sep = "---   \n"
		case "doubled":
			sep = "---\n---\n"
		case "leading":
			text = "---\n"
		}
		text += strings.Join(docs, sep)
		files = append(files, &chart.File{Name: "templates/" + f, Data: []byte(text)})
	}
	if partials {
		files = append(files, &chart.File{Name: "templates/_helpers.tpl", Data: []byte(helpersTpl)})
	}
	if notes != "" {
		files = append(files, &chart.File{Name: "templates/NOTES.txt", Data: []byte(notes)})
	}
	return files
}

func crdManifest(name string) string {
	plural := strings.ToLower(name) + "s"
	return fmt.Sprintf(`apiVersion: apiextensions.k8s.io/v1
kind: CustomResourceDefinition
metadata:
  name: %s.crd.verif.example
spec:
  group: crd.verif.example
  names:
    kind: %s
    plural: %s
  scope: Namespaced
  versions:
  - name: v1
    served: true
    storage: true
    schema:
      openAPIV3Schema:
        type: object
`, plural, name, plural)
}

// BuildChart materialises a ChartSpec. Every call returns a fresh object: the
// install/upgrade paths legitimately modify the chart they are given.
func BuildChart(cs *ChartSpec) *chart.Chart {
	ch := &chart.Chart{
		Metadata: &chart.Metadata{APIVersion: "v2", Name: cs.Name, Version: cs.Version, Type: "application"},
		Values:   deepCopyMap(cs.Values),
	}
	if ch.Values == nil {
		ch.Values = map[string]interface{}{}
	}
	ch.Templates = buildTemplates(cs.Slots, cs.Partials, cs.Notes, cs.SepStyle)
	if cs.Schema != "" {
		ch.Schema = []byte(cs.Schema)
	}
	for _, n := range cs.CRDs {
		ch.Files = append(ch.Files, &chart.File{Name: "crds/" + strings.ToLower(n) + ".yaml", Data: []byte(crdManifest(n))})
	}
	for _, n := range sortedKeys(cs.RawFiles) {
		f := &chart.File{Name: n, Data: []byte(cs.RawFiles[n])}
		if strings.HasPrefix(n, "templates/") {
			ch.Templates = append(ch.Templates, f)
		} else {
			ch.Files = append(ch.Files, f)
		}
	}
	for i := range cs.Subcharts {
		addSubchart(ch, &cs.Subcharts[i])
	}
	return ch
}

func addSubchart(parent *chart.Chart, sc *SubchartSpec) {
	sub := &chart.Chart{
		Metadata: &chart.Metadata{APIVersion: "v2", Name: sc.Name, Version: "0.1.0", Type: "application"},
		Values:   deepCopyMap(sc.Values),
	}
	if sub.Values == nil {
		sub.Values = map[string]interface{}{}
	}
	sub.Templates = buildTemplates(sc.Slots, false, sc.Notes)
	if sc.Schema != "" {
		sub.Schema = []byte(sc.Schema)
	}
	if !sc.Undeclared {
		parent.Metadata.Dependencies = append(parent.Metadata.Dependencies, &chart.Dependency{
			Name: sc.Name, Version: "0.1.0", Repository: "", Alias: sc.Alias, Condition: sc.Condition,
		})
	}
	parent.AddDependency(sub)
	for i := range sc.Sub {
		addSubchart(sub, &sc.Sub[i])
	}
}

func deepCopyMap(m map[string]interface{}) map[string]interface{} {
	if m == nil {
		return nil
	}
	return deepCopyJSON(m).(map[string]interface{})
}
