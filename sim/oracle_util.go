package sim

import (
	"fmt"
	"reflect"
	"sort"
	"strings"
)

// subsetJSON reports whether every field the manifest specifies is present
// with the same value in live. Maps are compared recursively, scalars must be
// equal, and a manifest list element must be matched by some live element.
// It returns the path of the first mismatch.
func subsetJSON(man, live interface{}, path string) (bool, string) {
	switch m := man.(type) {
	case map[string]interface{}:
		l, ok := live.(map[string]interface{})
		if !ok {
			return false, path
		}
		for _, k := range sortedKeys(m) {
			if m[k] == nil {
				continue // a null in the manifest specifies nothing
			}
			lv, ok := l[k]
			if !ok {
				return false, path + "." + k
			}
			if ok2, p := subsetJSON(m[k], lv, path+"."+k); !ok2 {
				return false, p
			}
		}
		return true, ""
	case []interface{}:
		l, ok := live.([]interface{})
		if !ok {
			return false, path
		}
		for i, me := range m {
			found := false
			for _, le := range l {
				if ok2, _ := subsetJSON(me, le, ""); ok2 {
					found = true
					break
				}
			}
			if !found {
				return false, fmt.Sprintf("%s[%d]", path, i)
			}
		}
		return true, ""
	default:
		if reflect.DeepEqual(man, live) {
			return true, ""
		}
		// numbers may differ in representation
		if fmt.Sprint(man) == fmt.Sprint(live) {
			if _, isStr := man.(string); !isStr {
				if _, isStr2 := live.(string); !isStr2 {
					return true, ""
				}
			}
		}
		return false, path
	}
}

// accepted: the cluster accepted the request (2xx, or "not found" answers to
// reads and deletes, which are answers, not rejections).
func accepted(q *ReqRecord) bool {
	if q.Verb == "WAIT" || q.Verb == "WATCH" || q.Verb == "WAITDEL" || q.Verb == "STORE" {
		return q.Status == 200
	}
	if q.Status >= 200 && q.Status < 300 {
		return true
	}
	if q.Status == 404 && (q.Verb == "GET" || q.Verb == "DELETE") {
		return true
	}
	return false
}

func allAccepted(r *OpResult) bool {
	for _, q := range r.Reqs {
		if q.SeqOut == 0 {
			continue
		}
		if !accepted(q) {
			return false
		}
	}
	return true
}

func isKeep(v string) bool { return strings.ToLower(strings.TrimSpace(v)) == "keep" }

// isRecordObj: the object is a stored release record of the release under test.
func (x *Exec) isRecordID(id ObjID) bool {
	return (id.Kind == "Secret" || id.Kind == "ConfigMap") && strings.HasPrefix(id.Name, "sh.helm.release.v1.")
}

// slotEnabled evaluates the slot's condition against chart defaults and user values.
func slotEnabled(s *ResSlot, defaults, user map[string]interface{}) bool {
	if s.Cond == "" {
		return true
	}
	v, ok := user[s.Cond]
	if !ok {
		v = defaults[s.Cond]
	}
	b, _ := v.(bool)
	return b
}

func slotID(s *ResSlot, ns string) ObjID {
	id := ObjID{Kind: s.Kind, Name: s.Name, Namespace: ns}
	if s.NS != "" {
		id.Namespace = s.NS
	}
	if res, ok := resByKind(s.Kind); ok {
		id.Group = res.Group
		if !res.Namespaced {
			id.Namespace = ""
		}
	} else {
		id.Group = "other.example"
	}
	return id
}

// ChartIDs returns the identities a chart version renders: manifest resources
// and hooks, from the generator's own knowledge (not from Helm's parser).
func ChartIDs(cs *ChartSpec, user map[string]interface{}, ns string) (manifest, hooks []ObjID) {
	for i := range cs.Slots {
		s := &cs.Slots[i]
		if s.Kind == "" || !slotEnabled(s, cs.Values, user) {
			continue
		}
		if s.Hook != nil {
			hooks = append(hooks, slotID(s, ns))
		} else {
			manifest = append(manifest, slotID(s, ns))
		}
	}
	for i := range cs.Subcharts {
		sc := &cs.Subcharts[i]
		if sc.Condition != "" {
			v, ok := user[sc.Condition]
			if !ok {
				v = cs.Values[sc.Condition]
			}
			if b, isB := v.(bool); isB && !b {
				continue
			}
		}
		for j := range sc.Slots {
			s := &sc.Slots[j]
			if s.Hook != nil {
				hooks = append(hooks, slotID(s, ns))
			} else {
				manifest = append(manifest, slotID(s, ns))
			}
		}
	}
	return
}

func idSet(ids []ObjID) map[string]bool {
	m := map[string]bool{}
	for _, id := range ids {
		m[id.String()] = true
	}
	return m
}

func sortedIDs(m map[string]bool) []string {
	ks := make([]string, 0, len(m))
	for k := range m {
		ks = append(ks, k)
	}
	sort.Strings(ks)
	return ks
}

// createdRev returns the highest revision present after but not before the step (0 if none).
func createdRev(so *StepObs) int {
	b := revSet(so.Before)
	c := 0
	for _, lr := range so.After.Ledger {
		if !b[lr.Rev] && lr.Rev > c {
			c = lr.Rev
		}
	}
	return c
}

func isDryOp(op *OpSpec) bool {
	if op.Op == "cli" {
		// a command line: helm template, or any command given a --dry-run flag
		if op.CLIKind == "template" {
			return true
		}
		for _, a := range op.CLI {
			if a == "--dry-run" || strings.HasPrefix(a, "--dry-run=") {
				return true
			}
		}
		return false
	}
	return op.DryRun || op.DryRunOption == "client" || op.DryRunOption == "server" || op.DryRunOption == "true" || op.ClientOnly
}

// clusterMatches checks C02 (a): every document of the manifest exists live
// with every field the manifest specifies. Returns a description of the first
// mismatch, or "".
func clusterMatches(manifest, ns string, cluster map[string]*Obj) string {
	msg, _ := clusterMatchesClass(manifest, ns, cluster)
	return msg
}

// clusterMatchesClass also classifies the mismatch for violation signatures.
func clusterMatchesClass(manifest, ns string, cluster map[string]*Obj) (string, string) {
	for _, d := range ParseManifest(manifest, ns) {
		o := cluster[d.ID.String()]
		if o == nil {
			return "manifest resource " + d.ID.String() + " does not exist in the cluster", "missing-object"
		}
		man := deepCopyJSON(d.M).(map[string]interface{})
		if ok, p := subsetJSON(man, o.M, ""); !ok {
			class := "typed-kind:field-differs"
			if res, found := resByKind(d.ID.Kind); !found || !res.Typed {
				class = "unstructured-kind:field-differs"
			}
			return "live " + d.ID.String() + " lacks manifest field " + p, class
		}
	}
	return "", ""
}
