package sim

// Independent parsing of recorded manifests (the oracles never use Helm's own
// splitter or sorter).

import (
	"regexp"
	"strings"

	"sigs.k8s.io/yaml"
)

type ManDoc struct {
	ID  ObjID
	M   map[string]interface{}
	Raw string
}

var docSep = regexp.MustCompile(`(?m)^---[ \t\r]*$`)

// ParseManifest splits a YAML stream and returns the documents that describe
// an object (kind + metadata.name).
func ParseManifest(manifest, defaultNS string) []ManDoc {
	var docs []ManDoc
	for _, raw := range docSep.Split(manifest, -1) {
		if strings.TrimSpace(raw) == "" {
			continue
		}
		var m map[string]interface{}
		if err := yaml.Unmarshal([]byte(raw), &m); err != nil || m == nil {
			continue
		}
		kind := str(m["kind"])
		md := getMap(m, "metadata")
		name := str(md["name"])
		if kind == "" || name == "" {
			continue
		}
		group := ""
		if av := str(m["apiVersion"]); strings.Contains(av, "/") {
			group = strings.SplitN(av, "/", 2)[0]
		}
		ns := str(md["namespace"])
		if res, ok := resByKind(kind); ok {
			if !res.Namespaced {
				ns = ""
			} else if ns == "" {
				ns = defaultNS
			}
		} else if ns == "" {
			ns = defaultNS
		}
		docs = append(docs, ManDoc{ID: ObjID{Group: group, Kind: kind, Namespace: ns, Name: name}, M: m, Raw: raw})
	}
	return docs
}

func ManifestIDs(manifest, defaultNS string) []ObjID {
	var ids []ObjID
	for _, d := range ParseManifest(manifest, defaultNS) {
		ids = append(ids, d.ID)
	}
	return ids
}

func docAnnotation(d ManDoc, key string) (string, bool) {
	a, ok := getMap(d.M, "metadata")["annotations"].(map[string]interface{})
	if !ok {
		return "", false
	}
	v, ok := a[key]
	if !ok {
		return "", false
	}
	return str(v), true
}

func objAnnotation(o *Obj, key string) (string, bool) {
	a, ok := getMap(o.M, "metadata")["annotations"].(map[string]interface{})
	if !ok {
		return "", false
	}
	v, ok := a[key]
	return str(v), ok
}

func objLabel(o *Obj, key string) (string, bool) {
	a, ok := getMap(o.M, "metadata")["labels"].(map[string]interface{})
	if !ok {
		return "", false
	}
	v, ok := a[key]
	return str(v), ok
}
