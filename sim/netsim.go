package sim

// netsim — an in-memory internet: virtual hosts reached through a real
// *http.Transport whose DialContext / DialTLSContext return net.Pipe ends
// served by in-process HTTP servers. Real code on top: getter.HTTPGetter,
// repo.ChartRepository, repo.FindChartInRepoURL, downloader.ChartDownloader,
// downloader.Manager, action.ChartPathOptions.LocateChart, provenance.

import (
	"context"
	"encoding/base64"
	"fmt"
	"io"
	"net"
	"net/http"
	"sort"
	"strings"
	"sync"
	"time"
)

// Route scripts what one URL answers.
type Route struct {
	Status   int    `json:"status,omitempty"`   // 0 = 200
	Artefact string `json:"artefact,omitempty"` // key into the artefact table
	Redirect string `json:"redirect,omitempty"` // Location of a 302
	StallS   int    `json:"stallS,omitempty"`   // sleep before answering (simulated seconds)
	Corrupt  string `json:"corrupt,omitempty"`  // bitflip truncate prefix suffix: damage the body in transit
	Pos      int    `json:"pos,omitempty"`
	DelayMs  int    `json:"delayMs,omitempty"`
}

type NetReq struct {
	Seq      int
	Scheme   string
	Addr     string // host:port dialed
	HostHdr  string
	Path     string
	AuthUser string
	AuthPass string
	HasAuth  bool
	Referer  string
	Status   int
}

type NetSim struct {
	mu        sync.Mutex
	Routes    map[string]*Route // "scheme://host:port/path"
	Artefacts map[string][]byte
	Log       []NetReq
	Transport *http.Transport
	conns     []net.Conn
	wg        sync.WaitGroup
}

func NewNetSim() *NetSim {
	n := &NetSim{Routes: map[string]*Route{}, Artefacts: map[string][]byte{}}
	n.Transport = &http.Transport{
		DisableKeepAlives: true,
		DialContext: func(ctx context.Context, network, addr string) (net.Conn, error) {
			return n.dial("http", addr)
		},
		DialTLSContext: func(ctx context.Context, network, addr string) (net.Conn, error) {
			return n.dial("https", addr)
		},
	}
	return n
}

type oneConnListener struct {
	c    net.Conn
	once sync.Once
	done chan struct{}
}

func (l *oneConnListener) Accept() (net.Conn, error) {
	var c net.Conn
	l.once.Do(func() { c = l.c })
	if c != nil {
		return c, nil
	}
	<-l.done
	return nil, io.EOF
}
func (l *oneConnListener) Close() error {
	select {
	case <-l.done:
	default:
		close(l.done)
	}
	return nil
}
func (l *oneConnListener) Addr() net.Addr { return &net.TCPAddr{IP: net.IPv4(10, 1, 1, 1), Port: 80} }

func (n *NetSim) dial(scheme, addr string) (net.Conn, error) {
	c1, c2 := net.Pipe()
	n.mu.Lock()
	n.conns = append(n.conns, c1, c2)
	n.mu.Unlock()
	l := &oneConnListener{c: c2, done: make(chan struct{})}
	srv := &http.Server{Handler: http.HandlerFunc(func(w http.ResponseWriter, r *http.Request) { n.handle(scheme, strings.ToLower(addr), w, r) })}
	srv.ConnState = func(c net.Conn, st http.ConnState) {
		if st == http.StateClosed || st == http.StateHijacked {
			l.Close()
		}
	}
	n.wg.Add(1)
	go func() {
		defer n.wg.Done()
		srv.Serve(l)
	}()
	return c1, nil
}

// Close tears down every connection so that no goroutine outlives the bubble.
func (n *NetSim) Close() {
	n.Transport.CloseIdleConnections()
	n.mu.Lock()
	for _, c := range n.conns {
		c.Close()
	}
	n.mu.Unlock()
	n.wg.Wait()
}

func (n *NetSim) handle(scheme, addr string, w http.ResponseWriter, r *http.Request) {
	key := scheme + "://" + addr + r.URL.Path
	n.mu.Lock()
	rt := n.Routes[key]
	req := NetReq{Seq: len(n.Log), Scheme: scheme, Addr: addr, HostHdr: r.Host, Path: r.URL.Path, Referer: r.Header.Get("Referer")}
	if a := r.Header.Get("Authorization"); a != "" {
		req.HasAuth = true
		if strings.HasPrefix(a, "Basic ") {
			if b, err := base64.StdEncoding.DecodeString(strings.TrimPrefix(a, "Basic ")); err == nil {
				up := strings.SplitN(string(b), ":", 2)
				req.AuthUser = up[0]
				if len(up) > 1 {
					req.AuthPass = up[1]
				}
			}
		}
	}
	var body []byte
	if rt != nil && rt.Artefact != "" {
		body = n.Artefacts[rt.Artefact]
	}
	n.mu.Unlock()
	status := 404
	switch {
	case rt == nil:
	case rt.Redirect != "":
		status = 302
	case rt.Status != 0:
		status = rt.Status
	default:
		status = 200
	}
	req.Status = status
	n.mu.Lock()
	n.Log = append(n.Log, req)
	n.mu.Unlock()
	if rt != nil && rt.StallS > 0 {
		time.Sleep(time.Duration(rt.StallS) * time.Second)
	}
	if rt != nil && rt.DelayMs > 0 {
		time.Sleep(time.Duration(rt.DelayMs) * time.Millisecond)
	}
	if status == 302 {
		w.Header().Set("Location", rt.Redirect)
		w.WriteHeader(302)
		return
	}
	if status != 200 {
		w.WriteHeader(status)
		fmt.Fprintf(w, "status %d", status)
		return
	}
	if rt.Corrupt == "torn" {
		// the file is being rewritten on the server while it is read: the new version up to a point, the old one after it
		if alt, ok := n.Artefacts[rt.Artefact+":old"]; ok && len(body) > 0 {
			p := rt.Pos % (len(body) + 1)
			torn := append([]byte{}, body[:p]...)
			if p < len(alt) {
				torn = append(torn, alt[p:]...)
			}
			body = torn
		}
	} else if rt.Corrupt != "" {
		body = corruptBytes(body, rt.Corrupt, rt.Pos)
	}
	w.Header().Set("Content-Type", "application/octet-stream")
	w.Write(body)
}

func corruptBytes(b []byte, mode string, pos int) []byte {
	out := append([]byte{}, b...)
	if len(out) == 0 {
		return out
	}
	p := pos % len(out)
	switch mode {
	case "bitflip":
		out[p] ^= 1 << (uint(pos) % 8)
	case "byte":
		out[p] = out[p] + 1
	case "truncate":
		out = out[:p]
	case "prefix":
		out = append([]byte("junk\n"), out...)
	case "suffix":
		out = append(out, []byte("\njunk")...)
	case "empty":
		out = nil
	}
	return out
}

// normAddr gives host:port with the scheme's default port filled in, lower case.
func normAddr(scheme, host string) string {
	h := strings.ToLower(host)
	if i := strings.LastIndex(h, "@"); i >= 0 {
		h = h[i+1:]
	}
	if _, _, err := net.SplitHostPort(h); err != nil {
		if scheme == "https" {
			h += ":443"
		} else {
			h += ":80"
		}
	}
	return h
}

func hostOnly(addr string) string {
	h, _, err := net.SplitHostPort(addr)
	if err != nil {
		return addr
	}
	return h
}

func (n *NetSim) SortedRoutes() []string {
	ks := make([]string, 0, len(n.Routes))
	for k := range n.Routes {
		ks = append(ks, k)
	}
	sort.Strings(ks)
	return ks
}
