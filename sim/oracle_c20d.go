package sim

// C20 (disk slice) — a chart directory, chart archive, values file, ignore file or plugin
// manifest that was damaged ON DISK (short write, lost write, torn write, flipped bit, lost
// block) makes every entry point that reads it return normally: a result or an error, never a
// panic, never unbounded recursion, never a hang.
//
// The "disk" is a scratch directory; the Plan carries the intact file contents and a list of
// disk faults as pure data, so a replay writes the same bytes and damages them the same way.
// Fatal errors that no recover() can catch (stack overflow) kill the worker process; the driver
// regenerates the Plan of the run that was in progress and reports it (clause no-panic,
// cause process-crash).

import (
	"archive/tar"
	"bytes"
	"compress/gzip"
	"fmt"
	"os"
	"path/filepath"
	"runtime"
	"runtime/debug"
	"sort"
	"strings"
	"testing"
	"time"

	"helm.sh/helm/v4/pkg/action"
	chart "helm.sh/helm/v4/pkg/chart/v2"
	"helm.sh/helm/v4/pkg/chart/v2/loader"
	chartutil "helm.sh/helm/v4/pkg/chart/v2/util"
	"helm.sh/helm/v4/pkg/ignore"
	"helm.sh/helm/v4/pkg/lint"
	"helm.sh/helm/v4/pkg/plugin"
	"helm.sh/helm/v4/pkg/repo"
)

type DiskFault struct {
	File string `json:"file"`          // path below the chart root; "@tar" / "@tgz" = the archive stream before / after compression; "plugin.yaml" lives in the plugin directory
	Kind string `json:"kind"`          // truncate | bitflip | zero-block | torn | dup-block | empty | missing
	Off  int    `json:"off,omitempty"` // byte offset
	Len  int    `json:"len,omitempty"` // block length
	Bit  int    `json:"bit,omitempty"`
}

type DiskSpec struct {
	Form   string            `json:"form"`             // "dir" | "archive"
	Files  map[string]string `json:"files"`            // intact chart directory (path -> content)
	Alt    map[string]string `json:"alt,omitempty"`    // an older version of some files (the other half of a torn write)
	Plugin string            `json:"plugin,omitempty"` // intact plugin.yaml ("" = no plugin directory)
	Home   map[string]string `json:"home,omitempty"`   // files of the helm home: repositories.yaml, index.yaml (cached repository index)
	Faults []DiskFault       `json:"faults"`
}

func applyDiskFault(content []byte, alt []byte, f DiskFault) ([]byte, bool) {
	n := len(content)
	off := f.Off
	if off > n {
		off = n
	}
	if off < 0 {
		off = 0
	}
	switch f.Kind {
	case "truncate": // short write: the tail never reached the disk
		return append([]byte{}, content[:off]...), true
	case "empty": // the file was created, its data never written
		return []byte{}, true
	case "bitflip":
		if n == 0 {
			return content, false
		}
		out := append([]byte{}, content...)
		out[off%n] ^= 1 << uint(f.Bit%8)
		return out, true
	case "zero-block": // a block that was allocated but never written
		out := append([]byte{}, content...)
		for i := off; i < n && i < off+f.Len; i++ {
			out[i] = 0
		}
		return out, true
	case "dup-block": // a block written twice (misdirected write)
		end := off + f.Len
		if end > n {
			end = n
		}
		out := append([]byte{}, content[:end]...)
		out = append(out, content[off:end]...)
		out = append(out, content[end:]...)
		return out, true
	case "torn": // the new version up to the offset, the previous version after it
		if alt == nil {
			return content, false
		}
		out := append([]byte{}, content[:off]...)
		if off < len(alt) {
			out = append(out, alt[off:]...)
		}
		return out, true
	}
	return content, false
}

func tarOf(files map[string][]byte, root string) []byte {
	var names []string
	for n := range files {
		names = append(names, n)
	}
	sort.Strings(names)
	var buf bytes.Buffer
	tw := tar.NewWriter(&buf)
	for _, n := range names {
		tw.WriteHeader(&tar.Header{Name: root + "/" + n, Mode: 0o644, Size: int64(len(files[n])), ModTime: time.Unix(1000000000, 0), Typeflag: tar.TypeReg})
		tw.Write(files[n])
	}
	tw.Close()
	return buf.Bytes()
}

func gzipOf(b []byte) []byte {
	var buf bytes.Buffer
	zw, _ := gzip.NewWriterLevel(&buf, gzip.BestCompression)
	zw.Write(b)
	zw.Close()
	return buf.Bytes()
}

// guarded runs fn, turning a panic into its message and stack, and gives up waiting after the limit.
func guarded(limit time.Duration, fn func() error) (err error, panicked string, hung bool) {
	type out struct {
		err error
		pan string
	}
	ch := make(chan out, 1)
	go func() {
		var o out
		defer func() {
			if r := recover(); r != nil {
				o.pan = fmt.Sprintf("%v\n%s", r, debug.Stack())
			}
			ch <- o
		}()
		o.err = fn()
	}()
	// besides the time limit: a reader that never returns AND keeps allocating (a loop that collects one message per
	// round, say) must not take the machine down with it; past 1 GiB of heap it counts as hung at once
	deadline := time.After(limit)
	tick := time.NewTicker(100 * time.Millisecond)
	defer tick.Stop()
	for {
		select {
		case o := <-ch:
			return o.err, o.pan, false
		case <-deadline:
			AbandonProcess = true
			return nil, "", true
		case <-tick.C:
			var ms runtime.MemStats
			runtime.ReadMemStats(&ms)
			if ms.HeapAlloc > 1<<30 {
				AbandonProcess = true
				return nil, "", true
			}
		}
	}
}

// AbandonProcess is set when a goroutine that will never return was left behind: the engine stops using this process
// after the current run.
var AbandonProcess bool

// ExecuteC20d writes the chart to the scratch disk, damages it, and drives every reader over it.
func ExecuteC20d(t *testing.T, plan *Plan) *RunResult {
	res := &RunResult{Check: plan.Check, Seed: plan.Seed, Index: plan.Index, Variant: plan.Variant, FaultsFired: map[string]int{}, Probes: map[string]int{}}
	t0 := time.Now()
	defer func() { res.WallMs = float64(time.Since(t0).Microseconds()) / 1000 }()
	ds := plan.Disk
	dir, err := os.MkdirTemp("", "verif-c20d-")
	if err != nil {
		res.Infra = err.Error()
		return res
	}
	defer os.RemoveAll(dir)
	files := map[string][]byte{}
	for n, c := range ds.Files {
		files[n] = []byte(c)
	}
	home := map[string][]byte{}
	for n, c := range ds.Home {
		home[n] = []byte(c)
	}
	pluginYAML := []byte(ds.Plugin)
	var streamFaults []DiskFault
	var damage []string
	for _, f := range ds.Faults {
		switch {
		case f.File == "@tar" || f.File == "@tgz":
			streamFaults = append(streamFaults, f)
			continue
		case f.File == "plugin.yaml":
			if ds.Plugin == "" {
				continue
			}
			if f.Kind == "missing" {
				pluginYAML = nil
				res.FaultsFired["disk-"+f.Kind]++
				damage = append(damage, "plugin.yaml:"+f.Kind)
				continue
			}
			if out, ok := applyDiskFault(pluginYAML, nil, f); ok {
				pluginYAML = out
				res.FaultsFired["disk-"+f.Kind]++
				damage = append(damage, "plugin.yaml:"+f.Kind)
			}
			continue
		}
		if strings.HasPrefix(f.File, "home:") {
			name := strings.TrimPrefix(f.File, "home:")
			cur, ok := home[name]
			if !ok {
				continue
			}
			if f.Kind == "missing" {
				delete(home, name)
			} else if out, ok := applyDiskFault(cur, []byte(ds.Alt[f.File]), f); ok {
				home[name] = out
			} else {
				continue
			}
			res.FaultsFired["disk-"+f.Kind]++
			damage = append(damage, name+":"+f.Kind)
			continue
		}
		cur, ok := files[f.File]
		if !ok {
			continue
		}
		if f.Kind == "missing" {
			delete(files, f.File)
			res.FaultsFired["disk-"+f.Kind]++
			damage = append(damage, fileClass(f.File)+":"+f.Kind)
			continue
		}
		var alt []byte
		if a, ok := ds.Alt[f.File]; ok {
			alt = []byte(a)
		}
		if out, ok := applyDiskFault(cur, alt, f); ok {
			files[f.File] = out
			res.FaultsFired["disk-"+f.Kind]++
			damage = append(damage, fileClass(f.File)+":"+f.Kind)
		}
	}
	chartPath := filepath.Join(dir, "demo")
	if ds.Form == "archive" {
		tb := tarOf(files, "demo")
		for _, f := range streamFaults {
			if f.File == "@tar" {
				if out, ok := applyDiskFault(tb, nil, f); ok {
					tb = out
					res.FaultsFired["disk-"+f.Kind]++
					damage = append(damage, "tar-stream:"+f.Kind)
				}
			}
		}
		zb := gzipOf(tb)
		for _, f := range streamFaults {
			if f.File == "@tgz" {
				if out, ok := applyDiskFault(zb, nil, f); ok {
					zb = out
					res.FaultsFired["disk-"+f.Kind]++
					damage = append(damage, "archive-bytes:"+f.Kind)
				}
			}
		}
		chartPath = filepath.Join(dir, "demo-1.2.3.tgz")
		if err := os.WriteFile(chartPath, zb, 0o644); err != nil {
			res.Infra = err.Error()
			return res
		}
	} else {
		for n, c := range files {
			p := filepath.Join(chartPath, n)
			os.MkdirAll(filepath.Dir(p), 0o755)
			if err := os.WriteFile(p, c, 0o644); err != nil {
				res.Infra = err.Error()
				return res
			}
		}
		os.MkdirAll(chartPath, 0o755)
	}
	pluginDir := filepath.Join(dir, "plug")
	if ds.Plugin != "" {
		os.MkdirAll(pluginDir, 0o755)
		if pluginYAML != nil {
			os.WriteFile(filepath.Join(pluginDir, "plugin.yaml"), pluginYAML, 0o644)
		}
	}
	sort.Strings(damage)
	cause := strings.Join(damage, "+")
	if cause == "" {
		cause = "intact"
	}
	intact := cause == "intact"
	vals := plan.Steps[0].Op.Values
	const limit = 45 * time.Second
	stopped := false
	step := func(what string, mustSucceed bool, fn func() error) {
		if stopped {
			return
		}
		res.Checks += 2
		res.Events++
		err, pan, hung := guarded(limit, fn)
		switch {
		case pan != "":
			res.Violations = append(res.Violations, Violation{"C20", "no-panic", what, cause + ":" + panicSite(pan), fmt.Sprintf("%s panicked on a chart damaged on disk (%s): %s", what, cause, trunc(pan, 600)), 0})
			res.Probes["c20d-panic"]++
		case hung:
			res.Violations = append(res.Violations, Violation{"C20", "no-hang", what, cause, fmt.Sprintf("%s did not return within %v (or kept allocating past 1 GiB) on a chart damaged on disk (%s)", what, limit, cause), 0})
			stopped = true // the goroutine is still running: nothing more can be judged in this run
		case err != nil:
			res.Probes["c20d-error:"+what]++
			if intact && mustSucceed {
				res.Violations = append(res.Violations, Violation{"C20", "intact-input-accepted", what, cause, fmt.Sprintf("%s failed on the undamaged chart: %v", what, err), 0})
			}
		default:
			res.Probes["c20d-ok:"+what]++
		}
	}
	var loaded *chart.Chart
	if ds.Form == "dir" {
		step("ignore.ParseFile", false, func() error {
			_, err := ignore.ParseFile(filepath.Join(chartPath, ".helmignore"))
			if os.IsNotExist(err) {
				return nil
			}
			return err
		})
		step("ReadValuesFile", false, func() error {
			_, err := chartutil.ReadValuesFile(filepath.Join(chartPath, "values.yaml"))
			if os.IsNotExist(err) {
				return nil
			}
			return err
		})
	}
	step("loader.Load", true, func() error {
		c, err := loader.Load(chartPath)
		if err == nil {
			loaded = c
		}
		return err
	})
	if loaded != nil {
		step("Chart.Validate", true, func() error { return loaded.Validate() })
		step("install-dry-run", true, func() error {
			cfg := &action.Configuration{}
			in := action.NewInstall(cfg)
			in.DryRun = true
			in.DryRunOption = "true"
			in.ClientOnly = true
			in.Replace = true
			in.ReleaseName = "rel"
			in.Namespace = "ns1"
			in.IncludeCRDs = true
			_, err := in.Run(loaded, deepCopyMap(vals))
			return err
		})
		step("template-with-subnotes", false, func() error {
			cfg := &action.Configuration{}
			in := action.NewInstall(cfg)
			in.DryRun = true
			in.DryRunOption = "true"
			in.ClientOnly = true
			in.Replace = true
			in.ReleaseName = "rel"
			in.Namespace = "ns1"
			in.SubNotes = true
			in.DependencyUpdate = false
			c2, err := loader.Load(chartPath)
			if err != nil {
				return err
			}
			if err := action.CheckDependencies(c2, c2.Metadata.Dependencies); err != nil {
				return err
			}
			_, err = in.Run(c2, deepCopyMap(vals))
			return err
		})
	}
	if ds.Form == "dir" {
		step("lint.RunAll", false, func() error {
			l := lint.RunAll(chartPath, deepCopyMap(vals), "ns1")
			_ = l.Messages
			return nil
		})
	}
	if ds.Plugin != "" {
		step("plugin.LoadDir", true, func() error {
			p, err := plugin.LoadDir(pluginDir)
			if err != nil {
				return err
			}
			_, _, err = p.PrepareCommand([]string{"arg"})
			return err
		})
		step("plugin.LoadAll", false, func() error {
			_, err := plugin.LoadAll(dir)
			return err
		})
	}
	if len(ds.Home) > 0 {
		hdir := filepath.Join(dir, "home")
		os.MkdirAll(hdir, 0o755)
		for n, c := range home {
			os.WriteFile(filepath.Join(hdir, n), c, 0o644)
		}
		if _, ok := ds.Home["repositories.yaml"]; ok {
			step("repo.LoadFile", true, func() error {
				rf, err := repo.LoadFile(filepath.Join(hdir, "repositories.yaml"))
				if err != nil {
					if os.IsNotExist(err) || strings.Contains(err.Error(), "no such file") {
						return nil
					}
					return err
				}
				rf.Has("stable")
				rf.Get("stable")
				rf.Get("other")
				rf.Update(&repo.Entry{Name: "stable", URL: "https://example.com/new"})
				rf.Remove("other")
				return rf.WriteFile(filepath.Join(hdir, "repositories.out.yaml"), 0o644)
			})
		}
		if _, ok := ds.Home["index.yaml"]; ok {
			step("repo.LoadIndexFile", true, func() error {
				idx, err := repo.LoadIndexFile(filepath.Join(hdir, "index.yaml"))
				if err != nil {
					if os.IsNotExist(err) || strings.Contains(err.Error(), "no such file") {
						return nil
					}
					return err
				}
				idx.SortEntries()
				idx.Has("demo", "1.2.3")
				idx.Has("demo", "")
				for _, v := range []string{"", "1.2.3", ">=1.0.0", "^1.x", "9.9.9", "not a version"} {
					idx.Get("demo", v)
					idx.Get("sub", v)
					idx.Get("absent", v)
				}
				other := repo.NewIndexFile()
				other.Merge(idx)
				idx.Merge(other)
				return idx.WriteFile(filepath.Join(hdir, "index.out.yaml"), 0o644)
			})
		}
	}
	res.Outcome = fmt.Sprintf("c20d form=%s damage=%s loaded=%v", ds.Form, cause, loaded != nil)
	var probeKeys []string
	for k := range res.Probes {
		probeKeys = append(probeKeys, k)
	}
	sort.Strings(probeKeys)
	res.Signature = bodyHash([]byte(res.Outcome + strings.Join(probeKeys, ",")))
	res.NonTrivial = !intact
	res.EventHash = bodyHash([]byte(res.Outcome + strings.Join(probeKeys, ",") + fmt.Sprint(len(res.Violations))))
	return res
}

func fileClass(name string) string {
	switch {
	case name == "Chart.yaml":
		return "Chart.yaml"
	case strings.HasSuffix(name, "/Chart.yaml"):
		return "subchart-Chart.yaml"
	case name == "values.yaml":
		return "values.yaml"
	case strings.HasSuffix(name, "/values.yaml"):
		return "subchart-values.yaml"
	case name == "values.schema.json":
		return "schema"
	case name == "Chart.lock":
		return "Chart.lock"
	case name == "requirements.yaml" || name == "requirements.lock":
		return name
	case name == ".helmignore":
		return "helmignore"
	case strings.HasPrefix(name, "templates/"):
		return "template"
	case strings.HasPrefix(name, "crds/"):
		return "crd"
	case strings.HasPrefix(name, "charts/"):
		return "subchart-file"
	}
	return "file"
}

// ---- generation ----

// c20dWord is a word that is a plain YAML string wherever it is put (the intact chart must be valid).
func (g *Gen) c20dWord() string {
	return g.Pick("alpha", "beta", "gamma", "delta", "omega") + fmt.Sprint(g.N(1000))
}

func (g *Gen) c20dChartYAML(alt bool) string {
	var b strings.Builder
	w := func(f string, a ...interface{}) { fmt.Fprintf(&b, f+"\n", a...) }
	w("apiVersion: v2")
	w("name: demo")
	if alt {
		w("version: 1.2.2")
	} else {
		w("version: 1.2.3")
	}
	if g.Chance(0.7) {
		w("appVersion: \"%d.%d\"", g.N(9), g.N(9))
	}
	w("description: a chart for the disk slice")
	if g.Chance(0.5) {
		w("type: application")
	}
	if g.Chance(0.4) {
		w("kubeVersion: \">=1.%d.0-0\"", 10+g.N(10))
	}
	if g.Chance(0.6) {
		w("keywords:")
		for i := 0; i < 1+g.N(3); i++ {
			w("- %s", g.c20dWord())
		}
	}
	if g.Chance(0.5) {
		w("home: https://example.com/%s", g.c20dWord())
	}
	if g.Chance(0.6) {
		w("sources:")
		for i := 0; i < 1+g.N(2); i++ {
			w("- https://example.com/src/%s", g.c20dWord())
		}
	}
	if g.Chance(0.4) {
		w("icon: https://example.com/icon.png")
	}
	if g.Chance(0.8) {
		w("maintainers:")
		for i := 0; i < 1+g.N(3); i++ {
			w("- name: %s", g.c20dWord())
			if g.Chance(0.6) {
				w("  email: %s@example.com", g.c20dWord())
			}
			if g.Chance(0.4) {
				w("  url: https://example.com/%s", g.c20dWord())
			}
		}
	}
	if g.Chance(0.5) {
		w("annotations:")
		w("  category: %s", g.c20dWord())
		if g.Chance(0.5) {
			w("  artifacthub.io/license: Apache-2.0")
		}
	}
	w("dependencies:")
	w("- name: sub")
	w("  version: 0.1.0")
	if g.Chance(0.5) {
		w("  repository: file://../sub")
	}
	if g.Chance(0.6) {
		w("  condition: sub.enabled")
	}
	if g.Chance(0.5) {
		w("  tags:")
		w("  - backend")
	}
	if g.Chance(0.8) {
		w("  import-values:")
		if g.Chance(0.7) {
			w("  - data")
		}
		if g.Chance(0.7) {
			w("  - child: exports2.x")
			w("    parent: imported")
		}
		if g.Chance(0.3) {
			w("  - child: missing.path")
			w("    parent: .")
		}
	}
	if g.Chance(0.4) {
		w("- name: other")
		w("  version: \">=0.2.0\"")
		w("  alias: second")
		w("  import-values:")
		w("  - data")
	}
	return b.String()
}

func genC20d(g *Gen, seed, index uint64) *Plan {
	p := &Plan{Check: "C20", Seed: seed, Index: index, Backend: "none", Variant: "disk", Namespace: "ns1", Release: "rel"}
	ds := &DiskSpec{Form: g.Pick("dir", "dir", "archive"), Files: map[string]string{}, Alt: map[string]string{}}
	f := ds.Files
	f["Chart.yaml"] = g.c20dChartYAML(false)
	ds.Alt["Chart.yaml"] = g.c20dChartYAML(true)
	hasOther := strings.Contains(f["Chart.yaml"], "- name: other")
	if g.Chance(0.25) {
		// the legacy layout: apiVersion v1, dependencies in requirements.yaml, lock in requirements.lock
		cy := f["Chart.yaml"]
		if i := strings.Index(cy, "dependencies:\n"); i >= 0 {
			f["requirements.yaml"] = cy[i:]
			cy = cy[:i]
			cy = strings.Replace(cy, "apiVersion: v2", "apiVersion: v1", 1)
			cy = strings.Replace(cy, "type: application\n", "", 1)
			f["Chart.yaml"] = cy
			ds.Alt["requirements.yaml"] = "# an older requirements file\ndependencies:\n- name: sub\n  version: 0.0.9\n  repository: https://example.com/a/long/repository/url/that/pads/this/older/version/of/the/file\n- name: gone\n  version: 1.0.0\n  repository: https://example.com/gone\n  enabled: false\n"
			if g.Chance(0.6) {
				f["requirements.lock"] = "dependencies:\n- name: sub\n  repository: file://../sub\n  version: 0.1.0\ndigest: sha256:0123456789abcdef0123456789abcdef0123456789abcdef0123456789abcdef\ngenerated: \"2020-01-02T03:04:05.678901234+01:00\"\n"
			}
		}
	}
	f["values.yaml"] = fmt.Sprintf("a: %s\nlist:\n- one\n- two\nnested:\n  deep:\n    k: %d\nsub:\n  enabled: true\n  s: over\ntags:\n  backend: true\nglobal:\n  g: %s\nsnippet: \"{{ .Release.Name }}-x\"\n", g.c20dWord(), g.N(100), g.c20dWord())
	ds.Alt["values.yaml"] = fmt.Sprintf("a: %s\nlist: [a, b]\nnested: {deep: {k: 1}}\nsub: {enabled: false}\n# a comment line that makes this version longer than the other one, so the torn tail is non-empty\nglobal: {g: x}\nsnippet: plain\n", g.c20dWord())
	if g.Chance(0.6) {
		f["values.schema.json"] = `{"$schema": "http://json-schema.org/draft-07/schema#", "type": "object", "properties": {"a": {"type": "string"}, "nested": {"type": "object", "properties": {"deep": {"$ref": "#/definitions/deep"}}}}, "definitions": {"deep": {"type": "object", "properties": {"k": {"type": "integer"}}}}}` + "\n"
		ds.Alt["values.schema.json"] = `{"type": "object", "properties": {"a": {"type": "string"}}, "required": ["a"], "additionalProperties": true, "description": "the previous, longer version of the schema document with some padding padding padding padding padding padding padding padding padding"}` + "\n"
	}
	f["templates/_helpers.tpl"] = "{{- define \"demo.name\" -}}{{ .Chart.Name }}-{{ .Release.Name }}{{- end -}}\n{{- define \"demo.labels\" -}}\napp: {{ include \"demo.name\" . }}\n{{- end -}}\n"
	f["templates/cm.yaml"] = "apiVersion: v1\nkind: ConfigMap\nmetadata:\n  name: {{ include \"demo.name\" . }}\n  labels:\n    {{- include \"demo.labels\" . | nindent 4 }}\ndata:\n  a: {{ .Values.a | quote }}\n  t: {{ tpl .Values.snippet . | quote }}\n  imported: {{ .Values.imported | default dict | toJson | quote }}\n{{- range $i, $v := .Values.list }}\n  item{{ $i }}: {{ $v | quote }}\n{{- end }}\n---\napiVersion: v1\nkind: Service\nmetadata:\n  name: svc\nspec:\n  ports:\n  - port: 80\n"
	ds.Alt["templates/cm.yaml"] = "apiVersion: v1\nkind: ConfigMap\nmetadata:\n  name: older\ndata:\n  {{- if .Values.a }}\n  a: {{ .Values.a }}\n  {{- end }}\n  {{- with .Values.nested }}\n  deep: {{ .deep.k | quote }}\n  {{- end }}\n---\n# trailing document of the older version\napiVersion: v1\nkind: Secret\nmetadata:\n  name: older-secret\nstringData:\n  k: v\n---\n\n---\n"
	if g.Chance(0.7) {
		f["templates/hook.yaml"] = "apiVersion: batch/v1\nkind: Job\nmetadata:\n  name: hook\n  annotations:\n    \"helm.sh/hook\": pre-install,post-upgrade\n    \"helm.sh/hook-weight\": \"-5\"\n    \"helm.sh/hook-delete-policy\": hook-succeeded,before-hook-creation\nspec:\n  template:\n    spec:\n      restartPolicy: Never\n      containers:\n      - name: c\n        image: busybox\n"
	}
	if g.Chance(0.5) {
		// a manifest written in JSON style (legal YAML): cut short on disk it ends in the middle of an object
		f["templates/json.yaml"] = "{\"apiVersion\": \"v1\", \"kind\": \"ConfigMap\", \"metadata\": {\"name\": \"json-cm\", \"labels\": {\"style\": \"json\"}},\n \"data\": {\"a\": {{ .Values.a | toJson }}, \"b\": \"two\", \"c\": \"three\"}}\n"
	}
	if g.Chance(0.6) {
		f["templates/NOTES.txt"] = "Installed {{ .Release.Name }} with a={{ .Values.a }}\n"
	}
	if g.Chance(0.4) {
		f["templates/tests/test.yaml"] = "apiVersion: v1\nkind: Pod\nmetadata:\n  name: t\n  annotations:\n    helm.sh/hook: test\nspec:\n  containers:\n  - name: c\n    image: busybox\n"
	}
	if g.Chance(0.4) {
		f["crds/crd.yaml"] = "apiVersion: apiextensions.k8s.io/v1\nkind: CustomResourceDefinition\nmetadata:\n  name: widgets.verif.example\nspec:\n  group: verif.example\n  names:\n    kind: Widget\n    plural: widgets\n  scope: Namespaced\n  versions:\n  - name: v1\n    served: true\n    storage: true\n"
	}
	if g.Chance(0.85) {
		var b strings.Builder
		// (no negations in the intact file: in Helm a negative rule ignores everything it does not match, Chart.yaml included)
		lines := []string{"# patterns", ".git/", "/secret.txt", "/keep.tmp", "*.tmp", "docs/", "/top/", "/neg", "a/*/b", "[a-z]*.bak", "  spaced  ", "\\#literal", "*/deep.txt", "!", "#"}
		n := 2 + g.N(8)
		for i := 0; i < n; i++ {
			l := lines[g.N(len(lines)-2)]
			b.WriteString(l + "\n")
		}
		f[".helmignore"] = b.String()
		ds.Alt[".helmignore"] = "# previous version\n/old/\n!/keepold\n*.swp\na/**/b\n/x\n!y\n/\n"
	}
	f["secret.txt"] = "s3cr3t\n"
	f["keep.txt"] = "keep\n"
	f["config/a.txt"] = "file a\n"
	if g.Chance(0.5) {
		f["Chart.lock"] = "dependencies:\n- name: sub\n  repository: file://../sub\n  version: 0.1.0\ndigest: sha256:0123456789abcdef0123456789abcdef0123456789abcdef0123456789abcdef\ngenerated: \"2020-01-02T03:04:05.678901234+01:00\"\n"
	}
	f["charts/sub/Chart.yaml"] = "apiVersion: v2\nname: sub\nversion: 0.1.0\ndescription: a subchart\nmaintainers:\n- name: carol\n"
	f["charts/sub/values.yaml"] = "s: default\nenabled: true\nexports:\n  data:\n    fromsub: yes-" + g.c20dWord() + "\nexports2:\n  x:\n    y: 1\n    z: [1, 2]\n"
	f["charts/sub/templates/cm.yaml"] = "apiVersion: v1\nkind: ConfigMap\nmetadata:\n  name: sub-cm\ndata:\n  s: {{ .Values.s | quote }}\n  g: {{ .Values.global.g | default \"none\" | quote }}\n"
	if g.Chance(0.4) {
		f["charts/sub/templates/NOTES.txt"] = "sub notes {{ .Values.s }}\n"
	}
	if hasOther {
		f["charts/other/Chart.yaml"] = "apiVersion: v2\nname: other\nversion: 0.2.1\n"
		f["charts/other/values.yaml"] = "exports:\n  data:\n    fromother: 1\n"
		f["charts/other/templates/cm.yaml"] = "apiVersion: v1\nkind: ConfigMap\nmetadata:\n  name: other-cm\ndata:\n  k: v\n"
	}
	if g.Chance(0.35) {
		ds.Plugin = "name: demo-plugin\nversion: 0.1.0\nusage: a plugin\ndescription: |-\n  a plugin for the disk slice\nignoreFlags: false\nplatformCommand:\n- os: linux\n  arch: amd64\n  command: $HELM_PLUGIN_DIR/bin/demo\n  args:\n  - --flag\n- command: demo\nplatformHooks:\n  install:\n  - command: echo\n    args:\n    - installed\ndownloaders:\n- command: bin/dl\n  protocols:\n  - demo\n  - demos\n"
	}
	if g.Chance(0.4) {
		ds.Home = map[string]string{}
		ds.Home["repositories.yaml"] = "apiVersion: \"\"\ngenerated: \"2020-01-02T03:04:05.678901234+01:00\"\nrepositories:\n- caFile: \"\"\n  certFile: \"\"\n  insecure_skip_tls_verify: false\n  keyFile: \"\"\n  name: stable\n  pass_credentials_all: false\n  password: " + g.c20dWord() + "\n  url: https://example.com/charts\n  username: " + g.c20dWord() + "\n- name: other\n  url: https://other.example.com/\n"
		ds.Alt["home:repositories.yaml"] = "apiVersion: \"\"\ngenerated: \"2019-01-01T00:00:00Z\"\nrepositories:\n- name: older\n  url: https://old.example.com/a/very/long/path/that/makes/this/version/of/the/file/longer/than/the/new/one/so/that/the/torn/tail/is/not/empty\n- name: second\n  url: http://second.example.com\n- name: third\n  url: http://third.example.com\n  username: u\n  password: p\n"
		var b strings.Builder
		b.WriteString("apiVersion: v1\nentries:\n  demo:\n")
		for i := 0; i < 1+g.N(3); i++ {
			fmt.Fprintf(&b, "  - apiVersion: v2\n    name: demo\n    version: 1.%d.%d\n    appVersion: \"%d\"\n    created: \"2020-01-0%dT00:00:00Z\"\n    description: demo chart\n    digest: %064d\n    urls:\n    - https://example.com/charts/demo-1.%d.0.tgz\n", 2+i, 3, i, 1+i, i, i)
			if g.Chance(0.5) {
				b.WriteString("    dependencies:\n    - name: sub\n      version: 0.1.0\n      repository: https://example.com/charts\n")
			}
			if g.Chance(0.5) {
				b.WriteString("    maintainers:\n    - name: " + g.c20dWord() + "\n      email: a@example.com\n")
			}
			if g.Chance(0.3) {
				b.WriteString("    keywords:\n    - k\n    annotations:\n      a: b\n")
			}
		}
		b.WriteString("  sub:\n  - apiVersion: v2\n    name: sub\n    version: 0.1.0\n    created: \"2020-01-01T00:00:00Z\"\n    digest: abc\n    urls:\n    - sub-0.1.0.tgz\ngenerated: \"2020-02-02T00:00:00Z\"\n")
		ds.Home["index.yaml"] = b.String()
		ds.Alt["home:index.yaml"] = "apiVersion: v1\nentries:\n  legacy:\n  - name: legacy\n    version: 0.0.1\n    urls:\n    - legacy-0.0.1.tgz\n  - name: legacy\n    version: 0.0.2\n    urls: []\n  demo:\n  - name: demo\n    version: 0.9.0\n    created: \"2018-01-01T00:00:00Z\"\n    urls:\n    - demo-0.9.0.tgz\n  empty: []\n  another:\n  - name: another\n    version: 1.0.0\n    urls:\n    - https://example.com/another-1.0.0.tgz\n    - https://mirror.example.com/another-1.0.0.tgz\ngenerated: \"2018-02-02T00:00:00Z\"\nserverInfo: {}\n"
	}
	// ---- faults ----
	nf := g.Weighted(1, 16, 3) // 0, 1 or 2 faults
	var names []string
	for n := range f {
		names = append(names, n)
	}
	sort.Strings(names)
	pickFile := func() string {
		if _, ok := f["requirements.yaml"]; ok && g.Chance(0.3) {
			return g.Pick("requirements.yaml", "requirements.yaml", "requirements.lock")
		}
		if len(ds.Home) > 0 && g.Chance(0.35) {
			return g.Pick("home:repositories.yaml", "home:index.yaml", "home:index.yaml")
		}
		switch g.Weighted(30, 12, 10, 8, 12, 10, 5, 8, 5) {
		case 0:
			return "Chart.yaml"
		case 1:
			if _, ok := f[".helmignore"]; ok {
				return ".helmignore"
			}
		case 2:
			return "values.yaml"
		case 3:
			if _, ok := f["values.schema.json"]; ok {
				return "values.schema.json"
			}
		case 4:
			if _, ok := f["templates/json.yaml"]; ok && g.Chance(0.4) {
				return "templates/json.yaml"
			}
			return g.Pick("templates/cm.yaml", "templates/_helpers.tpl", "templates/cm.yaml")
		case 5:
			return g.Pick("charts/sub/Chart.yaml", "charts/sub/values.yaml")
		case 6:
			if _, ok := f["Chart.lock"]; ok {
				return "Chart.lock"
			}
		case 7:
			if ds.Plugin != "" {
				return "plugin.yaml"
			}
		}
		return names[g.N(len(names))]
	}
	tokens := []string{"- ", ": ", ":\n", "\n", "/", "!", "{{", "\"", "  ", "[", ","}
	for i := 0; i < nf; i++ {
		df := DiskFault{}
		if ds.Form == "archive" && g.Chance(0.4) {
			df.File = g.Pick("@tar", "@tgz")
			df.Kind = g.Pick("truncate", "bitflip", "zero-block", "dup-block")
			size := 4096 + len(f["Chart.yaml"])*4
			if df.File == "@tgz" {
				size = 1500
			}
			df.Off = g.N(size)
			df.Len = 1 + g.N(600)
			df.Bit = g.N(8)
			ds.Faults = append(ds.Faults, df)
			continue
		}
		df.File = pickFile()
		content := f[df.File]
		if df.File == "plugin.yaml" {
			content = ds.Plugin
		}
		if strings.HasPrefix(df.File, "home:") {
			content = ds.Home[strings.TrimPrefix(df.File, "home:")]
		}
		df.Kind = []string{"truncate", "bitflip", "zero-block", "torn", "dup-block", "empty", "missing"}[g.Weighted(10, 4, 2, 4, 2, 1, 1)]
		if df.Kind == "torn" {
			if _, ok := ds.Alt[df.File]; !ok {
				df.Kind = "truncate"
			}
		}
		n := len(content)
		df.Off = g.N(n + 1)
		if g.Chance(0.5) && n > 0 {
			// land right after a structural token (where a half-written document is still well-formed but means something else)
			tok := tokens[g.N(len(tokens))]
			var hits []int
			for at := 0; ; {
				j := strings.Index(content[at:], tok)
				if j < 0 {
					break
				}
				hits = append(hits, at+j+len(tok))
				at += j + 1
			}
			if len(hits) > 0 {
				df.Off = hits[g.N(len(hits))]
			}
		}
		df.Len = 1 + g.N(64)
		df.Bit = g.N(8)
		ds.Faults = append(ds.Faults, df)
	}
	p.Disk = ds
	p.Charts = []ChartSpec{}
	vals := map[string]interface{}{"extra": g.c20dWord(), "nested": map[string]interface{}{"deep": map[string]interface{}{"k": float64(g.N(9))}}}
	if g.Chance(0.3) {
		vals["sub"] = map[string]interface{}{"s": g.c20dWord()}
	}
	p.Steps = []Step{{Op: &OpSpec{Op: "install", Chart: 0, Values: vals, DryRun: true, ClientOnly: true}}}
	return p.Clone()
}
