package sim

// C06 — dry-run and template never change the cluster or the release history.

import (
	"fmt"
	"strings"
)

func oracleC06(x *Exec, so *StepObs) {
	if so.After == nil || len(so.Results) != 1 {
		return
	}
	const P = "C06"
	r := so.Results[0]
	op := &r.Op
	if !isDryOp(op) || r.Crashed {
		return
	}
	if op.Op != "install" && op.Op != "upgrade" && op.Op != "rollback" && op.Op != "uninstall" && op.Op != "cli" {
		return
	}
	spelling := "DryRun"
	if op.DryRunOption != "" {
		spelling = "dry-run=" + op.DryRunOption
	}
	if op.Op == "cli" {
		spelling = "cli"
		for _, a := range op.CLI {
			if strings.HasPrefix(a, "--dry-run") || a == "--validate" || a == "--is-upgrade" || a == "--install" || a == "--description" {
				spelling += " " + a
			}
		}
	}
	if op.ClientOnly {
		spelling += "+client-only"
	}
	if op.Description != "" && op.Op != "cli" {
		spelling += "+description"
	}
	opName := op.Op
	if op.Op == "cli" {
		opName = "cli-" + op.CLIKind
	}
	cause := spelling + ledgerCtx(so.Before)
	fail := func(clause, detail string) {
		x.Violate(Violation{P, clause, opName, cause, detail, so.Index})
		x.stop = true
	}
	x.Res.Checks += 4
	x.Sim.Probe("dry-run:" + op.Op)
	for _, q := range r.Reqs {
		if q.Mutating() {
			fail("no-mutating-request", fmt.Sprintf("%s %s was sent by a dry-run %s (%s)", q.Verb, q.Path, op.Op, opFlags(op)))
			return
		}
	}
	for _, c := range r.StoreLog {
		if c.Op == "create" || c.Op == "update" || c.Op == "delete" {
			fail("no-storage-write", fmt.Sprintf("storage %s %s was called by a dry-run %s (%s)", c.Op, c.Key, op.Op, opFlags(op)))
			return
		}
	}
	if so.Before.Summary() != so.After.Summary() {
		fail("history-unchanged", fmt.Sprintf("%s -> %s", so.Before.Summary(), so.After.Summary()))
		return
	}
	for i := range so.Before.Ledger {
		b, a := so.Before.Ledger[i], so.After.Ledger[i]
		if b.ManHash != a.ManHash || b.Desc != a.Desc {
			fail("history-unchanged", fmt.Sprintf("revision %d content changed", b.Rev))
			return
		}
	}
	for _, k := range sortedIDs(unionKeys(so.Before.Cluster, so.After.Cluster)) {
		b, a := so.Before.Cluster[k], so.After.Cluster[k]
		if b == nil || a == nil || a.RV != b.RV {
			fail("cluster-unchanged", "object "+k+" differs after a dry-run")
			return
		}
	}
	// client-only rendering = what `helm template` without --validate does. An explicit --dry-run=server|none|false asks for
	// cluster access (lookup goes live) and is not judged; ClientOnly without any dry-run selector is not helm template.
	explicitRemote := op.DryRunOption == "server" || op.DryRunOption == "none" || op.DryRunOption == "false"
	isTemplate := op.ClientOnly && (op.DryRun || op.DryRunOption == "client" || op.DryRunOption == "true")
	if op.Op == "cli" {
		isTemplate = op.ClientOnly
		for _, a := range op.CLI {
			if a == "--dry-run=server" || a == "--dry-run=none" || a == "--dry-run=false" {
				explicitRemote = true
			}
		}
	}
	if isTemplate && !explicitRemote {
		x.Res.Checks++
		if len(r.Reqs) > 0 {
			fail("client-only-no-request", fmt.Sprintf("%s %s was sent by client-only rendering", r.Reqs[0].Verb, r.Reqs[0].Path))
			return
		}
		x.Sim.Probe("client-only-silent")
	}
	if r.OK && op.PostRender && r.PostRendN == 0 && (op.Op == "install" || op.Op == "upgrade") {
		// informational only: whether the post-renderer ran is not part of the property
		x.Sim.Probe("post-renderer-skipped")
	}
	_ = strings.Contains
}

// genC06: a prefix of real operations to populate the history (sometimes left
// pending or failed), then dry-run operations with every flag combination.
func genC06(seed, index uint64, tier string) *Plan {
	g := NewGen(seed, index, 6)
	p := &Plan{Check: "C06", Seed: seed, Index: index, Namespace: "ns1", Release: "rel", ClientTOs: 30}
	p.Backend = g.Backend()
	co := g.SwarmChartOpts()
	co.Hooks = g.Chance(0.7)
	co.CRDs = g.Chance(0.4)
	co.Subcharts = g.Chance(0.4)
	p.Charts = g.ChartFamily(co)
	if g.Chance(0.3) {
		// a chart that asks the cluster a question while rendering: client-only rendering must not reach the cluster even so
		for ci := range p.Charts {
			if p.Charts[ci].RawFiles == nil {
				p.Charts[ci].RawFiles = map[string]string{}
			}
			p.Charts[ci].RawFiles["templates/c06-lookup.yaml"] = "apiVersion: v1\nkind: ConfigMap\nmetadata:\n  name: c06-lookup\ndata:\n  seen: {{ (lookup \"v1\" \"ConfigMap\" .Release.Namespace \"c06-probe\") | toJson | quote }}\n"
		}
	}
	p.NSMissing = g.Chance(0.2)
	ho := &HistoryOpts{NVersions: len(p.Charts), Flags: true, MaxHistory: true, WaitP: 0.3, AtomicP: 0.3, FirstInst: 1}
	npre := g.Weighted(3, 4, 3, 2)
	for i := 0; i < npre; i++ {
		op := g.Op(i, ho)
		if p.NSMissing {
			op.CreateNamespace = op.Op == "install"
		}
		st := Step{Op: &op}
		if i == npre-1 && p.Backend != "memory" && g.Chance(0.3) {
			// leave the history pending or failed
			if g.Chance(0.5) {
				st.Faults = []FaultSpec{{Kind: FCrashAfter, Pred: &Pred{Storage: boolp(true), Verb: "POST", Nth: 1}}}
			} else {
				st.Faults = []FaultSpec{{Kind: FReject, Code: 403, Pred: &Pred{Storage: boolp(false), Mutating: boolp(true), PathHas: "/namespaces/", Nth: 1 + g.N(3)}}}
			}
		}
		p.Steps = append(p.Steps, st)
	}
	nd := 1 + g.N(3)
	for i := 0; i < nd; i++ {
		op := g.Op(npre+i, ho)
		for op.Op != "install" && op.Op != "upgrade" && op.Op != "rollback" && op.Op != "uninstall" {
			op = g.Op(npre+i, ho)
		}
		switch op.Op {
		case "install", "upgrade":
			switch g.N(5) {
			case 0:
				op.DryRun = true
			case 1:
				op.DryRunOption = "client"
			case 2:
				op.DryRunOption = "server"
			case 3:
				op.DryRunOption = "true"
			case 4:
				// the SDK's boolean together with an option string; "none"/"false" then only say how much the dry run may
				// talk to the cluster, it stays a dry run
				op.DryRun = true
				op.DryRunOption = g.Pick("client", "server", "true", "none", "false")
			}
			op.PostRender = g.Chance(0.3)
			op.CreateNamespace = op.Op == "install" && g.Chance(0.4)
			op.SubNotes = g.Chance(0.3)
			op.TakeOwnership = g.Chance(0.2)
			if op.Op == "install" {
				op.Replace = g.Chance(0.5)
				op.SkipCRDs = g.Chance(0.2)
				op.IncludeCRDs = g.Chance(0.3)
				if g.Chance(0.35) { // helm template
					op.ClientOnly = g.Chance(0.7)
					op.DryRun = true
					if op.DryRunOption == "" {
						op.DryRunOption = "true"
					}
					op.Replace = true
					op.IsUpgrade = g.Chance(0.3)
				}
			}
		default:
			op.DryRun = true
		}
		if op.Op != "rollback" && g.Chance(0.3) {
			// a caller-supplied description is only text on the returned release; it must not turn the dry run into a real one
			op.Description = g.Pick("why", "dry run with a reason", "x")
		}
		if g.Chance(0.2) {
			// the same through the command line layer (pkg/cmd): flag parsing and wiring are part of what must not write
			cli := OpSpec{Op: "cli", Chart: op.Chart, Values: op.Values, TimeoutS: op.TimeoutS}
			add := func(cond bool, a ...string) {
				if cond {
					cli.CLI = append(cli.CLI, a...)
				}
			}
			switch g.Weighted(5, 3, 3, 1, 1) {
			case 0:
				cli.CLIKind = "template"
				cli.CLI = []string{"template", "rel", "@CHART@", "-n", "ns1", "-f", "@VALUES@"}
				validate := g.Chance(0.5)
				add(validate, "--validate")
				switch g.N(7) {
				case 0:
				case 1:
					add(true, "--dry-run")
				default:
					add(true, "--dry-run="+g.Pick("client", "server", "true", "false", "none"))
				}
				add(g.Chance(0.3), "--is-upgrade")
				add(g.Chance(0.3), "--create-namespace")
				add(g.Chance(0.3), "--include-crds")
				add(g.Chance(0.2), "--skip-crds")
				add(g.Chance(0.2), "--no-hooks")
				add(g.Chance(0.2), "--skip-tests")
				cli.ClientOnly = !validate
			case 1:
				cli.CLIKind = "install"
				cli.CLI = []string{"install", "rel", "@CHART@", "-n", "ns1", "-f", "@VALUES@", g.Pick("--dry-run", "--dry-run=client", "--dry-run=server", "--dry-run=true")}
				add(g.Chance(0.4), "--create-namespace")
				add(g.Chance(0.4), "--replace")
				add(g.Chance(0.2), "--atomic")
				add(g.Chance(0.2), "--wait")
				add(g.Chance(0.2), "--no-hooks")
				add(g.Chance(0.2), "--skip-crds")
				add(g.Chance(0.3), "--description", "why")
			case 2:
				cli.CLIKind = "upgrade"
				cli.CLI = []string{"upgrade", "rel", "@CHART@", "-n", "ns1", "-f", "@VALUES@", g.Pick("--dry-run", "--dry-run=client", "--dry-run=server", "--dry-run=true")}
				add(g.Chance(0.5), "--install")
				add(g.Chance(0.3), "--create-namespace")
				add(g.Chance(0.2), "--atomic")
				add(g.Chance(0.2), "--force")
				add(g.Chance(0.2), "--history-max", "1")
				add(g.Chance(0.2), "--reuse-values")
				add(g.Chance(0.2), "--cleanup-on-fail")
				add(g.Chance(0.3), "--description", "why")
			case 3:
				cli.CLIKind = "uninstall"
				cli.CLI = []string{"uninstall", "rel", "-n", "ns1", "--dry-run"}
				add(g.Chance(0.3), "--keep-history")
				add(g.Chance(0.3), "--no-hooks")
				add(g.Chance(0.2), "--ignore-not-found")
				add(g.Chance(0.3), "--description", "why")
			case 4:
				cli.CLIKind = "rollback"
				cli.CLI = []string{"rollback", "rel", fmt.Sprint(g.N(3)), "-n", "ns1", "--dry-run"}
				add(g.Chance(0.3), "--no-hooks")
				add(g.Chance(0.2), "--force")
			}
			op = cli
		}
		st := Step{Op: &op}
		if g.Chance(0.15) {
			// reads may be rejected; a dry-run must still not write
			st.Faults = []FaultSpec{{Kind: FReject, Code: 500, Pred: &Pred{Verb: "GET", PathHas: "/namespaces/", Nth: 1 + g.N(4)}}}
		}
		p.Steps = append(p.Steps, st)
	}
	p.Variant = "dry-run"
	p.Policy = "uniform"
	p.Schedule = g.Schedule(32)
	return p.Clone()
}
