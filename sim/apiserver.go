package sim

// Simulated Kubernetes API server: an object store with REST semantics.
// It is only ever touched by the scheduler goroutine (or, between steps, by
// the step driver while everything else is quiescent), so it needs no locks
// and its behaviour is a pure function of the order of calls.

import (
	"encoding/json"
	"fmt"
	"net/http"
	"net/url"
	"sort"
	"strconv"
	"strings"
	"time"

	jsonpatch "github.com/evanphx/json-patch"
	metav1 "k8s.io/apimachinery/pkg/apis/meta/v1"
	"k8s.io/apimachinery/pkg/fields"
	"k8s.io/apimachinery/pkg/labels"
	"k8s.io/apimachinery/pkg/runtime/schema"
	"k8s.io/apimachinery/pkg/util/strategicpatch"
	"k8s.io/client-go/kubernetes/scheme"
)

// ResInfo describes one resource type served by the simulator.
type ResInfo struct {
	Group, Version, Resource, Kind string
	Namespaced                     bool
	Typed                          bool // has a Go type in client-go's scheme (strategic merge patch works)
}

func (r ResInfo) GVK() schema.GroupVersionKind {
	return schema.GroupVersionKind{Group: r.Group, Version: r.Version, Kind: r.Kind}
}
func (r ResInfo) APIVersion() string {
	if r.Group == "" {
		return r.Version
	}
	return r.Group + "/" + r.Version
}

// Palette is the fixed set of kinds the simulated server knows.
var Palette = []ResInfo{
	{"", "v1", "namespaces", "Namespace", false, true},
	{"", "v1", "configmaps", "ConfigMap", true, true},
	{"", "v1", "secrets", "Secret", true, true},
	{"", "v1", "serviceaccounts", "ServiceAccount", true, true},
	{"", "v1", "services", "Service", true, true},
	{"", "v1", "pods", "Pod", true, true},
	{"apps", "v1", "deployments", "Deployment", true, true},
	{"batch", "v1", "jobs", "Job", true, true},
	{"rbac.authorization.k8s.io", "v1", "clusterroles", "ClusterRole", false, true},
	{"apiextensions.k8s.io", "v1", "customresourcedefinitions", "CustomResourceDefinition", false, true},
	{"verif.example", "v1", "widgets", "Widget", true, false},
	{"verif.example", "v1", "gadgets", "Gadget", true, false},
	// the same kind and plural served by a second API group (a resource that moves between groups keeps kind and name)
	{"legacy.example", "v1", "widgets", "Widget", true, false},
	// the same kind served at a second version of its group (objects are shared between the versions, as on a real server)
	{"verif.example", "v1beta1", "widgets", "Widget", true, false},
}

func resByKind(kind string) (ResInfo, bool) {
	for _, r := range Palette {
		if r.Kind == kind {
			return r, true
		}
	}
	return ResInfo{}, false
}

func resByGVR(group, version, resource string) (ResInfo, bool) {
	for _, r := range Palette {
		if r.Group == group && r.Version == version && r.Resource == resource {
			return r, true
		}
	}
	return ResInfo{}, false
}

// asVersion returns the object as the requested version of its group serves it.
func asVersion(m map[string]interface{}, res ResInfo) map[string]interface{} {
	if str(m["apiVersion"]) == res.APIVersion() {
		return m
	}
	c := make(map[string]interface{}, len(m))
	for k, v := range m {
		c[k] = v
	}
	c["apiVersion"] = res.APIVersion()
	return c
}

func resByGR(group, resource string) (ResInfo, bool) {
	for _, r := range Palette {
		if r.Group == group && r.Resource == resource {
			return r, true
		}
	}
	return ResInfo{}, false
}

// ObjID is the identity of an object in the store.
type ObjID struct {
	Group, Kind, Namespace, Name string
}

func (o ObjID) String() string {
	return o.Group + "/" + o.Kind + "/" + o.Namespace + "/" + o.Name
}

// Obj is one stored object. Objects are immutable once stored: every write
// replaces the map, so snapshots can share them.
type Obj struct {
	ID  ObjID
	Res ResInfo
	M   map[string]interface{}
	RV  uint64
}

// ReqRecord is one entry of the request log.
type ReqRecord struct {
	SeqIn   uint64 // event number at which the request arrived at the server (parked)
	SeqOut  uint64 // event number at which it was answered
	Proc    string
	Verb    string // HTTP method, or WAIT/WATCH/WAITDEL/STORE for seam calls that are not HTTP
	Path    string
	Query   string
	Body    []byte // request body (kept for oracles; hashed in the event log)
	Status  int    // HTTP status; 0 = transport error
	Applied bool   // the request changed (or would have read) server state
	Fault   string // fault kind that hit this request, if any
	ID      *ObjID // object addressed, when the path names one (or the body does, for POST)
	Note    string
	// TargetState describes the addressed object just before a mutating request was applied: "", "absent", "owned", "foreign"
	TargetState string
}

// Mutating reports whether the request is one of the state changing verbs.
func (r *ReqRecord) Mutating() bool {
	switch r.Verb {
	case "POST", "PUT", "PATCH", "DELETE":
		return true
	}
	return false
}

type APIServer struct {
	objs    map[string]*Obj // key = ObjID.String()
	rv      uint64
	uidN    uint64
	now     func() time.Time
	stuck   map[string]bool // objects whose DELETE leaves them in place (finalizer never removed)
	WriteN  uint64          // number of applied mutating requests
	CRDKind map[string]bool
}

func NewAPIServer(now func() time.Time) *APIServer {
	return &APIServer{objs: map[string]*Obj{}, now: now, stuck: map[string]bool{}}
}

// Snapshot returns a shallow copy of the store (objects are immutable).
func (s *APIServer) Snapshot() map[string]*Obj {
	m := make(map[string]*Obj, len(s.objs))
	for k, v := range s.objs {
		m[k] = v
	}
	return m
}

func (s *APIServer) Get(id ObjID) *Obj { return s.objs[id.String()] }

func (s *APIServer) SortedKeys() []string {
	ks := make([]string, 0, len(s.objs))
	for k := range s.objs {
		ks = append(ks, k)
	}
	sort.Strings(ks)
	return ks
}

// Put stores an object directly (out-of-band actor, bystanders). It behaves
// like a create-or-replace by a cluster admin.
func (s *APIServer) Put(res ResInfo, m map[string]interface{}) *Obj {
	md := getMap(m, "metadata")
	id := ObjID{Group: res.Group, Kind: res.Kind, Namespace: str(md["namespace"]), Name: str(md["name"])}
	m = deepCopyJSON(m).(map[string]interface{})
	md = getMap(m, "metadata")
	if old := s.objs[id.String()]; old != nil {
		omd := getMap(old.M, "metadata")
		md["uid"] = omd["uid"]
		md["creationTimestamp"] = omd["creationTimestamp"]
	} else {
		s.uidN++
		md["uid"] = fmt.Sprintf("uid-%06d", s.uidN)
		md["creationTimestamp"] = s.now().UTC().Format(time.RFC3339)
	}
	s.rv++
	md["resourceVersion"] = strconv.FormatUint(s.rv, 10)
	m["apiVersion"] = res.APIVersion()
	m["kind"] = res.Kind
	o := &Obj{ID: id, Res: res, M: m, RV: s.rv}
	s.objs[id.String()] = o
	return o
}

// Remove deletes an object directly (out-of-band actor).
func (s *APIServer) Remove(id ObjID) { delete(s.objs, id.String()) }

type parsedPath struct {
	discovery bool
	res       ResInfo
	namespace string
	name      string
	sub       string
	ok        bool
}

func parsePath(p string) parsedPath {
	parts := strings.Split(strings.Trim(p, "/"), "/")
	var group, version string
	var rest []string
	switch {
	case len(parts) >= 2 && parts[0] == "api":
		group, version, rest = "", parts[1], parts[2:]
	case len(parts) >= 3 && parts[0] == "apis":
		group, version, rest = parts[1], parts[2], parts[3:]
	default:
		return parsedPath{discovery: true}
	}
	if len(rest) == 0 {
		return parsedPath{discovery: true}
	}
	pp := parsedPath{}
	if rest[0] == "namespaces" && len(rest) >= 3 {
		pp.namespace = rest[1]
		rest = rest[2:]
	}
	r, ok := resByGVR(group, version, rest[0])
	if !ok {
		return parsedPath{}
	}
	pp.res = r
	if len(rest) >= 2 {
		pp.name = rest[1]
	}
	if len(rest) >= 3 {
		pp.sub = rest[2]
	}
	pp.ok = true
	return pp
}

// Response is what the simulated server answers.
type Response struct {
	Status int
	Body   []byte
}

func statusBody(code int, reason metav1.StatusReason, msg string, res ResInfo, name string) Response {
	st := metav1.Status{
		TypeMeta: metav1.TypeMeta{Kind: "Status", APIVersion: "v1"},
		Status:   metav1.StatusFailure,
		Code:     int32(code),
		Reason:   reason,
		Message:  msg,
		Details:  &metav1.StatusDetails{Group: res.Group, Kind: res.Resource, Name: name},
	}
	if code >= 200 && code < 300 {
		st.Status = metav1.StatusSuccess
	}
	b, _ := json.Marshal(st)
	return Response{Status: code, Body: b}
}

func notFound(res ResInfo, name string) Response {
	return statusBody(404, metav1.StatusReasonNotFound, fmt.Sprintf("%s %q not found", res.Resource, name), res, name)
}

// TargetID computes the object a request addresses (for logs, faults and oracles).
func TargetID(method, path string, body []byte) *ObjID {
	pp := parsePath(path)
	if !pp.ok {
		return nil
	}
	name := pp.name
	ns := pp.namespace
	if name == "" && method == "POST" {
		var m map[string]interface{}
		if json.Unmarshal(body, &m) == nil {
			name = str(getMap(m, "metadata")["name"])
		}
	}
	if name == "" {
		return nil
	}
	if !pp.res.Namespaced {
		ns = ""
	}
	return &ObjID{Group: pp.res.Group, Kind: pp.res.Kind, Namespace: ns, Name: name}
}

// Handle serves one request against the store.
func (s *APIServer) Handle(method, path string, query url.Values, contentType string, body []byte) Response {
	pp := parsePath(path)
	if pp.discovery {
		return s.discovery(path)
	}
	if !pp.ok {
		return statusBody(404, metav1.StatusReasonNotFound, "the server could not find the requested resource", ResInfo{}, "")
	}
	res := pp.res
	ns := pp.namespace
	if !res.Namespaced {
		ns = ""
	}
	switch method {
	case "GET":
		if pp.name == "" {
			return s.list(res, ns, query)
		}
		o := s.objs[ObjID{res.Group, res.Kind, ns, pp.name}.String()]
		if o == nil {
			return notFound(res, pp.name)
		}
		return jsonResp(200, asVersion(o.M, res))
	case "POST":
		var m map[string]interface{}
		if err := json.Unmarshal(body, &m); err != nil {
			return statusBody(400, metav1.StatusReasonBadRequest, "cannot decode body: "+err.Error(), res, "")
		}
		md := getMap(m, "metadata")
		name := str(md["name"])
		if name == "" {
			return statusBody(422, metav1.StatusReasonInvalid, "metadata.name: Required value", res, "")
		}
		if res.Namespaced {
			if ons := str(md["namespace"]); ons != "" && ons != ns {
				return statusBody(400, metav1.StatusReasonBadRequest, "the namespace of the provided object does not match the namespace sent on the request", res, name)
			}
			md["namespace"] = ns
			if ns != "default" && s.objs[ObjID{"", "Namespace", "", ns}.String()] == nil {
				return statusBody(404, metav1.StatusReasonNotFound, fmt.Sprintf("namespaces %q not found", ns), ResInfo{Resource: "namespaces"}, ns)
			}
		}
		id := ObjID{res.Group, res.Kind, ns, name}
		if s.objs[id.String()] != nil {
			return statusBody(409, metav1.StatusReasonAlreadyExists, fmt.Sprintf("%s %q already exists", res.Resource, name), res, name)
		}
		m["metadata"] = md
		s.uidN++
		md["uid"] = fmt.Sprintf("uid-%06d", s.uidN)
		md["creationTimestamp"] = s.now().UTC().Format(time.RFC3339)
		s.rv++
		md["resourceVersion"] = strconv.FormatUint(s.rv, 10)
		m["apiVersion"] = res.APIVersion()
		m["kind"] = res.Kind
		s.objs[id.String()] = &Obj{ID: id, Res: res, M: m, RV: s.rv}
		s.WriteN++
		return jsonResp(201, m)
	case "PUT":
		id := ObjID{res.Group, res.Kind, ns, pp.name}
		old := s.objs[id.String()]
		if old == nil {
			return notFound(res, pp.name)
		}
		var m map[string]interface{}
		if err := json.Unmarshal(body, &m); err != nil {
			return statusBody(400, metav1.StatusReasonBadRequest, "cannot decode body: "+err.Error(), res, pp.name)
		}
		md := getMap(m, "metadata")
		if n := str(md["name"]); n != pp.name {
			return statusBody(400, metav1.StatusReasonBadRequest, "the name of the object does not match the name on the URL", res, pp.name)
		}
		if rv := str(md["resourceVersion"]); rv != "" && rv != strconv.FormatUint(old.RV, 10) {
			return statusBody(409, metav1.StatusReasonConflict, fmt.Sprintf("Operation cannot be fulfilled on %s %q: the object has been modified; please apply your changes to the latest version and try again", res.Resource, pp.name), res, pp.name)
		}
		m["metadata"] = md
		s.finishUpdate(old, m)
		return jsonResp(200, asVersion(m, res))
	case "PATCH":
		id := ObjID{res.Group, res.Kind, ns, pp.name}
		old := s.objs[id.String()]
		if old == nil {
			return notFound(res, pp.name)
		}
		oldJSON, _ := json.Marshal(old.M)
		var newJSON []byte
		var err error
		ct := strings.TrimSpace(strings.Split(contentType, ";")[0])
		switch ct {
		case "application/strategic-merge-patch+json":
			if !res.Typed {
				return statusBody(415, metav1.StatusReasonUnsupportedMediaType, "the body of the request was in an unknown format - accepted media types include: application/json-patch+json, application/merge-patch+json, application/apply-patch+yaml", res, pp.name)
			}
			obj, e := scheme.Scheme.New(res.GVK())
			if e != nil {
				return statusBody(415, metav1.StatusReasonUnsupportedMediaType, e.Error(), res, pp.name)
			}
			newJSON, err = strategicpatch.StrategicMergePatch(oldJSON, body, obj)
		case "application/merge-patch+json":
			newJSON, err = jsonpatch.MergePatch(oldJSON, body)
		case "application/json-patch+json":
			var p jsonpatch.Patch
			p, err = jsonpatch.DecodePatch(body)
			if err == nil {
				newJSON, err = p.Apply(oldJSON)
			}
		default:
			return statusBody(415, metav1.StatusReasonUnsupportedMediaType, "unsupported patch type "+ct, res, pp.name)
		}
		if err != nil {
			return statusBody(422, metav1.StatusReasonInvalid, "cannot apply patch: "+err.Error(), res, pp.name)
		}
		var m map[string]interface{}
		if err := json.Unmarshal(newJSON, &m); err != nil {
			return statusBody(500, metav1.StatusReasonInternalError, err.Error(), res, pp.name)
		}
		md := getMap(m, "metadata")
		if str(md["name"]) != pp.name {
			return statusBody(422, metav1.StatusReasonInvalid, "metadata.name: field is immutable", res, pp.name)
		}
		m["metadata"] = md
		s.finishUpdate(old, m)
		return jsonResp(200, asVersion(m, res))
	case "DELETE":
		id := ObjID{res.Group, res.Kind, ns, pp.name}
		old := s.objs[id.String()]
		if old == nil {
			return notFound(res, pp.name)
		}
		s.WriteN++
		if s.stuck[id.String()] {
			// deletionTimestamp set, finalizer never removed: the object stays
			m := deepCopyJSON(old.M).(map[string]interface{})
			md := getMap(m, "metadata")
			md["deletionTimestamp"] = s.now().UTC().Format(time.RFC3339)
			md["finalizers"] = []interface{}{"verif.example/stuck"}
			m["metadata"] = md
			s.finishUpdate(old, m)
			return jsonResp(200, m)
		}
		delete(s.objs, id.String())
		st := metav1.Status{TypeMeta: metav1.TypeMeta{Kind: "Status", APIVersion: "v1"}, Status: metav1.StatusSuccess,
			Details: &metav1.StatusDetails{Name: pp.name, Group: res.Group, Kind: res.Resource, UID: "uid"}}
		b, _ := json.Marshal(st)
		return Response{Status: 200, Body: b}
	}
	return statusBody(405, metav1.StatusReasonMethodNotAllowed, "method not allowed", res, pp.name)
}

func (s *APIServer) finishUpdate(old *Obj, m map[string]interface{}) {
	md := getMap(m, "metadata")
	omd := getMap(old.M, "metadata")
	md["uid"] = omd["uid"]
	md["creationTimestamp"] = omd["creationTimestamp"]
	if old.Res.Namespaced {
		md["namespace"] = old.ID.Namespace
	}
	s.rv++
	md["resourceVersion"] = strconv.FormatUint(s.rv, 10)
	m["apiVersion"] = old.Res.APIVersion()
	m["kind"] = old.Res.Kind
	s.objs[old.ID.String()] = &Obj{ID: old.ID, Res: old.Res, M: m, RV: s.rv}
	s.WriteN++
}

func (s *APIServer) list(res ResInfo, ns string, query url.Values) Response {
	var lsel labels.Selector = labels.Everything()
	var fsel fields.Selector = fields.Everything()
	if q := query.Get("labelSelector"); q != "" {
		sel, err := labels.Parse(q)
		if err != nil {
			return statusBody(400, metav1.StatusReasonBadRequest, "unable to parse label selector: "+err.Error(), res, "")
		}
		lsel = sel
	}
	if q := query.Get("fieldSelector"); q != "" {
		sel, err := fields.ParseSelector(q)
		if err != nil {
			return statusBody(400, metav1.StatusReasonBadRequest, "unable to parse field selector: "+err.Error(), res, "")
		}
		fsel = sel
	}
	items := []interface{}{}
	for _, k := range s.SortedKeys() {
		o := s.objs[k]
		if o.ID.Group != res.Group || o.ID.Kind != res.Kind {
			continue
		}
		if res.Namespaced && ns != "" && o.ID.Namespace != ns {
			continue
		}
		md := getMap(o.M, "metadata")
		ls := labels.Set{}
		if lm, ok := md["labels"].(map[string]interface{}); ok {
			for k, v := range lm {
				ls[k] = str(v)
			}
		}
		if !lsel.Matches(ls) {
			continue
		}
		if !fsel.Matches(fields.Set{"metadata.name": o.ID.Name, "metadata.namespace": o.ID.Namespace}) {
			continue
		}
		items = append(items, asVersion(o.M, res))
	}
	out := map[string]interface{}{
		"kind":       res.Kind + "List",
		"apiVersion": res.APIVersion(),
		"metadata":   map[string]interface{}{"resourceVersion": strconv.FormatUint(s.rv, 10)},
		"items":      items,
	}
	return jsonResp(200, out)
}

func (s *APIServer) discovery(path string) Response {
	p := "/" + strings.Trim(path, "/")
	switch {
	case p == "/version":
		return jsonResp(200, map[string]interface{}{"major": "1", "minor": "32", "gitVersion": "v1.32.0", "platform": "sim/sim"})
	case p == "/api":
		return jsonResp(200, map[string]interface{}{"kind": "APIVersions", "versions": []interface{}{"v1"},
			"serverAddressByClientCIDRs": []interface{}{}})
	case p == "/apis":
		seen := map[string]bool{}
		groups := []interface{}{}
		for _, r := range Palette {
			if r.Group == "" || seen[r.Group] {
				continue
			}
			seen[r.Group] = true
			var versions []interface{}
			seenV := map[string]bool{}
			for _, q := range Palette {
				if q.Group == r.Group && !seenV[q.Version] {
					seenV[q.Version] = true
					versions = append(versions, map[string]interface{}{"groupVersion": q.Group + "/" + q.Version, "version": q.Version})
				}
			}
			groups = append(groups, map[string]interface{}{"name": r.Group, "versions": versions, "preferredVersion": versions[0]})
		}
		return jsonResp(200, map[string]interface{}{"kind": "APIGroupList", "apiVersion": "v1", "groups": groups})
	}
	parts := strings.Split(strings.Trim(p, "/"), "/")
	var group, version string
	if len(parts) == 2 && parts[0] == "api" {
		group, version = "", parts[1]
	} else if len(parts) == 3 && parts[0] == "apis" {
		group, version = parts[1], parts[2]
	} else {
		return statusBody(404, metav1.StatusReasonNotFound, "the server could not find the requested resource", ResInfo{}, "")
	}
	rs := []interface{}{}
	for _, r := range Palette {
		if r.Group == group && r.Version == version {
			rs = append(rs, map[string]interface{}{"name": r.Resource, "singularName": strings.ToLower(r.Kind), "namespaced": r.Namespaced,
				"kind": r.Kind, "verbs": []interface{}{"create", "delete", "get", "list", "patch", "update"}})
		}
	}
	if len(rs) == 0 {
		return statusBody(404, metav1.StatusReasonNotFound, "the server could not find the requested resource", ResInfo{}, "")
	}
	gv := version
	if group != "" {
		gv = group + "/" + version
	}
	return jsonResp(200, map[string]interface{}{"kind": "APIResourceList", "apiVersion": "v1", "groupVersion": gv, "resources": rs})
}

func jsonResp(code int, v interface{}) Response {
	b, err := json.Marshal(v)
	if err != nil {
		panic(err)
	}
	return Response{Status: code, Body: b}
}

func (r Response) HTTP(req *http.Request) *http.Response {
	return &http.Response{
		StatusCode: r.Status, Status: fmt.Sprintf("%d %s", r.Status, http.StatusText(r.Status)),
		Proto: "HTTP/1.1", ProtoMajor: 1, ProtoMinor: 1,
		Header:        http.Header{"Content-Type": []string{"application/json"}},
		Body:          newBody(r.Body),
		ContentLength: int64(len(r.Body)),
		Request:       req,
	}
}

// ---- small JSON helpers ----

func getMap(m map[string]interface{}, k string) map[string]interface{} {
	if v, ok := m[k].(map[string]interface{}); ok {
		return v
	}
	return map[string]interface{}{}
}

func str(v interface{}) string {
	if s, ok := v.(string); ok {
		return s
	}
	return ""
}

func deepCopyJSON(v interface{}) interface{} {
	switch t := v.(type) {
	case map[string]interface{}:
		m := make(map[string]interface{}, len(t))
		for k, x := range t {
			m[k] = deepCopyJSON(x)
		}
		return m
	case []interface{}:
		l := make([]interface{}, len(t))
		for i, x := range t {
			l[i] = deepCopyJSON(x)
		}
		return l
	default:
		return v
	}
}
