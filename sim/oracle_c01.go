package sim

// C01 — the release ledger stays well-formed under any history and faults.

import (
	"encoding/json"
	"fmt"
	"reflect"
	"sort"
	"strconv"
	"strings"
)

// faultCause classifies one faulted seam call for violation signatures.
func faultCause(q *ReqRecord) string {
	if q.Fault == "" {
		return ""
	}
	class := "fail"
	switch q.Fault {
	case FLostResponse, FCrashAfter, FStoreErrAfter:
		class = "lost"
	case FNotReady:
		return "notready@" + q.Verb
	case FHookFail:
		return "hookfail@WATCH"
	}
	if q.Fault == FCrashBefore || q.Fault == FCrashAfter {
		class = "crash-" + class
	}
	what := "cluster"
	switch {
	case q.Verb == "STORE":
		parts := strings.Fields(q.Path)
		what = "record"
		if len(parts) > 0 {
			what = "record." + parts[0]
		}
		if len(parts) > 2 {
			what += "(" + parts[2] + ")"
		}
		return class + "@STORE:" + what
	case q.ID != nil && isRecordName(q.ID.Name):
		what = "record"
		if st := recordStatusFromBody(q.Body); st != "" {
			what += "(" + st + ")"
		}
	case q.ID == nil && strings.Contains(q.Query, "owner%3Dhelm"):
		what = "recordlist"
	case q.ID != nil:
		what = "resource"
	default:
		what = "discovery"
	}
	return class + "@" + q.Verb + ":" + what
}

func recordStatusFromBody(body []byte) string {
	if len(body) == 0 {
		return ""
	}
	var m map[string]interface{}
	if json.Unmarshal(body, &m) != nil {
		return ""
	}
	l, _ := getMap(m, "metadata")["labels"].(map[string]interface{})
	return str(l["status"])
}

// opCause is the sorted set of fault causes that hit an operation ("none" if
// no fault hit it).
func opCause(r *OpResult) string {
	set := map[string]bool{}
	for _, q := range r.Reqs {
		if c := faultCause(q); c != "" {
			set[c] = true
		}
	}
	if len(set) == 0 {
		return "none"
	}
	ks := sortedKeys(set)
	return strings.Join(ks, "+")
}

// opSigName is the operation name used in violation signatures: the
// operation plus the flags that select a different code path.
func opSigName(o *OpSpec) string {
	n := o.Op
	if o.Op == "cli" {
		n = "cli-" + o.CLIKind
	}
	if o.Replace {
		n += "+replace"
	}
	if o.Atomic {
		n += "+atomic"
	}
	return n
}

// ledgerCtx describes the shape of the history an operation started from.
func ledgerCtx(w *WorldObs) string {
	if w == nil || len(w.Ledger) == 0 {
		return "[empty]"
	}
	last := w.Ledger[len(w.Ledger)-1]
	ctx := "[last=" + last.Status
	for _, d := range w.Deployed() {
		if d != last.Rev {
			ctx += ",deployed=older"
			break
		}
	}
	return ctx + "]"
}

func revSet(w *WorldObs) map[int]bool {
	m := map[int]bool{}
	for _, r := range w.Ledger {
		m[r.Rev] = true
	}
	return m
}

// createdRevs returns, in creation order, the revisions whose records were
// successfully created during the step (from the request / storage seam log).
func createdRevs(x *Exec, so *StepObs) []int {
	type ev struct {
		seq uint64
		rev int
	}
	var evs []ev
	prefix := "sh.helm.release.v1." + x.Plan.Release + ".v"
	for _, r := range so.Results {
		if x.Backend.Kind == "memory" {
			for i, c := range r.StoreLog {
				if c.Op == "create" && c.Applied && strings.HasPrefix(c.Key, prefix) {
					evs = append(evs, ev{uint64(i), c.Rev})
				}
			}
			continue
		}
		for _, q := range r.Reqs {
			if q.Verb == "POST" && q.Applied && q.ID != nil && strings.HasPrefix(q.ID.Name, prefix) {
				// applied and accepted: a lost response hides the status, so look at the note
				okStatus := q.Status == 201 || strings.Contains(q.Note, "status 201")
				if !okStatus {
					continue
				}
				n, err := strconv.Atoi(strings.TrimPrefix(q.ID.Name, prefix))
				if err == nil {
					evs = append(evs, ev{q.SeqOut, n})
				}
			}
		}
	}
	sort.SliceStable(evs, func(i, j int) bool { return evs[i].seq < evs[j].seq })
	var out []int
	for _, e := range evs {
		out = append(out, e.rev)
	}
	return out
}

// LedgerInvariants checks I1-I3 on an observed world. It is shared by C01,
// C09 and C03.
func ledgerInvariants(x *Exec, so *StepObs, prop, opName, cause string) bool {
	w := so.After
	x.Res.Checks += 3
	seen := map[int]bool{}
	for _, r := range w.Ledger {
		if r.Rev < 1 || seen[r.Rev] {
			x.Violate(Violation{prop, "I1-unique-revisions", opName, cause, fmt.Sprintf("revision %d duplicated or < 1 in %s", r.Rev, w.Summary()), so.Index})
			return false
		}
		seen[r.Rev] = true
	}
	// raw records on the Kubernetes backends: object name must carry the revision of its labels
	if x.Backend.Kind != "memory" {
		prefix := "sh.helm.release.v1." + x.Plan.Release + ".v"
		kind := "Secret"
		if x.Backend.Kind == "configmaps" {
			kind = "ConfigMap"
		}
		for _, k := range sortedKeys(w.Cluster) {
			o := w.Cluster[k]
			if o.ID.Kind != kind || !strings.HasPrefix(o.ID.Name, prefix) {
				continue
			}
			lv, _ := objLabel(o, "version")
			if lv != strings.TrimPrefix(o.ID.Name, prefix) {
				x.Violate(Violation{prop, "I1-key-matches-revision", opName, cause, fmt.Sprintf("record %s carries version label %q", o.ID.Name, lv), so.Index})
				return false
			}
			n, _ := strconv.Atoi(lv)
			if lr := w.Rev(n); lr == nil {
				x.Violate(Violation{prop, "I1-record-unreadable", opName, cause, fmt.Sprintf("record %s exists but History does not return revision %d", o.ID.Name, n), so.Index})
				return false
			}
		}
	}
	if d := w.Deployed(); len(d) > 1 {
		x.Violate(Violation{prop, "I3-one-deployed", opName, cause, fmt.Sprintf("revisions %v are all marked deployed: %s", d, w.Summary()), so.Index})
		return false
	}
	if len(w.DeployedAll) > 1 {
		x.Violate(Violation{prop, "I3-one-deployed", opName, cause, fmt.Sprintf("DeployedAll returns revisions %v: %s", w.DeployedAll, w.Summary()), so.Index})
		return false
	}
	return true
}

func oracleC01(x *Exec, so *StepObs) {
	if so.After == nil {
		return
	}
	const P = "C01"
	opName, cause := "none", "none"
	var r *OpResult
	if len(so.Results) == 1 {
		r = so.Results[0]
		opName = opSigName(&r.Op)
		cause = opCause(r) + ledgerCtx(so.Before)
	}
	defer func() {
		if len(x.Res.Violations) > 0 {
			x.stop = true
		}
	}()
	if !ledgerInvariants(x, so, P, opName, cause) {
		return
	}
	before, after := so.Before, so.After
	bset, aset := revSet(before), revSet(after)
	// I2: each created revision is one above the highest existing
	high := before.MaxRev()
	x.Res.Checks++
	for _, c := range createdRevs(x, so) {
		if c != high+1 {
			x.Violate(Violation{P, "I2-next-revision", opName, cause, fmt.Sprintf("revision %d created while highest existing was %d (before: %s)", c, high, before.Summary()), so.Index})
			return
		}
		high = c
	}
	// any revision that appeared must have been created through the log
	for rev := range aset {
		if !bset[rev] && rev > high {
			x.Violate(Violation{P, "I2-next-revision", opName, cause, fmt.Sprintf("revision %d appeared without a logged create", rev), so.Index})
			return
		}
	}
	if r == nil {
		return
	}
	op := &r.Op
	isDry := op.DryRun || op.DryRunOption == "client" || op.DryRunOption == "server" || op.DryRunOption == "true" || op.ClientOnly
	// pruning clauses, for every step run with a limit
	if (op.Op == "upgrade" || op.Op == "rollback") && op.MaxHistory > 0 && !isDry {
		x.Res.Checks += 2
		depBefore := before.Deployed()
		var removed, kept []int
		for _, lr := range before.Ledger {
			if aset[lr.Rev] {
				kept = append(kept, lr.Rev)
			} else {
				removed = append(removed, lr.Rev)
			}
		}
		if len(removed) > 0 {
			x.Sim.Probe("pruned")
		}
		for _, rm := range removed {
			for _, d := range depBefore {
				if rm == d {
					x.Violate(Violation{P, "I6b-deployed-never-pruned", opName, cause, fmt.Sprintf("deployed revision %d was removed (limit %d): %s -> %s", d, op.MaxHistory, before.Summary(), after.Summary()), so.Index})
					return
				}
			}
			for _, k := range kept {
				isDep := false
				for _, d := range depBefore {
					if d == k {
						isDep = true
					}
				}
				if !isDep && rm > k && !recordCallRefused(x, r, k) {
					x.Violate(Violation{P, "I6a-oldest-first", opName, cause, fmt.Sprintf("revision %d removed while older revision %d was kept (limit %d): %s -> %s", rm, k, op.MaxHistory, before.Summary(), after.Summary()), so.Index})
					return
				}
			}
		}
		if r.OK && !r.Crashed {
			x.Res.Checks++
			n := len(after.Ledger)
			if n > op.MaxHistory {
				okPlusOne := false
				if n == op.MaxHistory+1 && len(depBefore) == 1 && aset[depBefore[0]] && after.Ledger[0].Rev == depBefore[0] {
					okPlusOne = true
					x.Sim.Probe("pruning-kept-deployed(N+1)")
				}
				if !okPlusOne && x.Backend.Kind == "memory" {
					// the memory driver hands out its stored objects: an operation that failed before writing may have
					// changed a stored release's status in place, while the driver's label index still says "deployed",
					// and pruning then protects that revision. Recognised by a status nobody ever wrote to the driver.
					written := map[string]string{}
					for _, prev := range x.Steps {
						if prev == so {
							break
						}
						for _, pr := range prev.Results {
							for _, c := range pr.StoreLog {
								if c.Applied && (c.Op == "create" || c.Op == "update") {
									written[c.Key] = c.Status
								}
							}
						}
					}
					for _, lr := range before.Ledger {
						k := fmt.Sprintf("sh.helm.release.v1.%s.v%d", x.Plan.Release, lr.Rev)
						if w, ok := written[k]; ok && w != lr.Status {
							cause = "memory-driver-status-label-stale"
						}
					}
				}
				if !okPlusOne {
					x.Violate(Violation{P, "I6c-at-most-N", opName, cause, fmt.Sprintf("%d revisions remain with limit %d: %s -> %s", n, op.MaxHistory, before.Summary(), after.Summary()), so.Index})
					return
				}
			}
		}
	}
	if !r.OK || r.Crashed || isDry {
		return
	}
	switch op.Op {
	case "install", "upgrade", "rollback":
		x.Res.Checks += 2
		created := 0
		for rev := range aset {
			if !bset[rev] && rev > created {
				created = rev
			}
		}
		if created == 0 {
			x.Violate(Violation{P, "I4-created-is-highest-deployed", opName, cause, fmt.Sprintf("operation reported success but no new revision exists: %s -> %s", before.Summary(), after.Summary()), so.Index})
			return
		}
		lr := after.Rev(created)
		if created != after.MaxRev() || lr.Status != "deployed" {
			x.Violate(Violation{P, "I4-created-is-highest-deployed", opName, cause, fmt.Sprintf("operation reported success; revision %d has status %s, highest is %d: %s", created, lr.Status, after.MaxRev(), after.Summary()), so.Index})
			return
		}
		for _, d := range before.Deployed() {
			if d == created {
				continue
			}
			old := after.Rev(d)
			if old == nil {
				x.Violate(Violation{P, "I5-old-deployed-superseded", opName, cause, fmt.Sprintf("previously deployed revision %d vanished: %s -> %s", d, before.Summary(), after.Summary()), so.Index})
				return
			}
			if old.Status != "superseded" {
				x.Violate(Violation{P, "I5-old-deployed-superseded", opName, cause, fmt.Sprintf("previously deployed revision %d now has status %s: %s", d, old.Status, after.Summary()), so.Index})
				return
			}
		}
		if op.Op == "rollback" {
			x.Res.Checks++
			target := op.Revision
			if target == 0 {
				target = before.MaxRev() - 1
			}
			tr := before.Rev(target)
			if tr == nil {
				x.Violate(Violation{P, "I4-rollback-copies-target", opName, cause, fmt.Sprintf("rollback to missing revision %d reported success", target), so.Index})
				return
			}
			if lr.Manifest != tr.Manifest || !reflect.DeepEqual(normJSON(lr.Config), normJSON(tr.Config)) || lr.ChartName != tr.ChartName || lr.ChartVer != tr.ChartVer || !chartEqual(lr, tr) {
				x.Violate(Violation{P, "I4-rollback-copies-target", opName, cause, fmt.Sprintf("revision %d does not carry chart/values/manifest of target %d", created, target), so.Index})
				return
			}
			x.Sim.Probe("rollback-ok")
		}
	case "uninstall":
		x.Res.Checks++
		if !op.KeepHistory && len(after.Ledger) > 0 {
			x.Violate(Violation{P, "I4-uninstall-purges", opName, cause, fmt.Sprintf("uninstall reported success but history remains: %s", after.Summary()), so.Index})
			return
		}
	}
}

// recordCallRefused: during this operation the cluster refused (or a fault hit) a call on the
// record of the given revision. Pruning deletes oldest-first but carries on after a failed
// delete, so an older revision whose own delete was refused legitimately survives a newer one.
func recordCallRefused(x *Exec, r *OpResult, rev int) bool {
	name := fmt.Sprintf("sh.helm.release.v1.%s.v%d", x.Plan.Release, rev)
	for _, q := range r.Reqs {
		if q.ID != nil && q.ID.Name == name && (q.Fault != "" || !accepted(q)) {
			return true
		}
	}
	return false
}

func normJSON(v interface{}) interface{} {
	b, err := json.Marshal(v)
	if err != nil {
		return fmt.Sprint(v)
	}
	var out interface{}
	_ = json.Unmarshal(b, &out)
	if out == nil {
		return map[string]interface{}{}
	}
	return out
}

func chartEqual(a, b *LedgerRec) bool {
	if a.Rel == nil || b.Rel == nil || a.Rel.Chart == nil || b.Rel.Chart == nil {
		return a.Rel == nil && b.Rel == nil || (a.Rel != nil && b.Rel != nil && a.Rel.Chart == nil && b.Rel.Chart == nil)
	}
	ja, _ := json.Marshal(a.Rel.Chart)
	jb, _ := json.Marshal(b.Rel.Chart)
	return string(ja) == string(jb)
}

// genC01 builds histories with faults and crashes.
func genC01(seed, index uint64, tier string) *Plan {
	g := NewGen(seed, index, 1)
	p := &Plan{Check: "C01", Seed: seed, Index: index, Namespace: "ns1", Release: "rel", ClientTOs: 30}
	p.Backend = g.Backend()
	co := g.SwarmChartOpts()
	p.Charts = g.ChartFamily(co)
	ho := &HistoryOpts{NVersions: len(p.Charts), Flags: true, MaxHistory: g.Chance(0.6), AllowReads: true, WaitP: 0.4, AtomicP: 0.25, FirstInst: 0.9}
	n := 1 + g.Weighted(2, 4, 5, 4, 3, 2, 1, 1)
	long := g.Chance(0.07)
	if long {
		// long histories: revision numbers with two digits, pruning with gaps
		n = 10 + g.N(5)
		ho.AllowReads = false
		for ci := range p.Charts {
			if len(p.Charts[ci].Slots) > 2 {
				p.Charts[ci].Slots = p.Charts[ci].Slots[:2]
			}
			p.Charts[ci].Subcharts = nil
		}
	}
	for i := 0; i < n; i++ {
		op := g.Op(i, ho)
		if long && i > 0 && op.Op != "upgrade" && op.Op != "rollback" {
			op = OpSpec{Op: "upgrade", Chart: g.N(len(p.Charts)), TimeoutS: 60}
			if g.Chance(0.3) {
				op.MaxHistory = []int{2, 3, 5, 10}[g.N(4)]
			}
		}
		if long && op.Op == "rollback" {
			op.Revision = g.N(i + 2)
		}
		p.Steps = append(p.Steps, Step{Op: &op})
	}
	if !long && g.Chance(0.05) {
		// name re-use over a pruned history: the low revision numbers are gone, the release was uninstalled with its history
		// kept, a first install --replace is refused half-way by the cluster (failed revision), a second one follows
		p.Steps = nil
		p.Steps = append(p.Steps, Step{Op: &OpSpec{Op: "install", Chart: 0, TimeoutS: 60}})
		for k := 0; k < 2+g.N(2); k++ {
			p.Steps = append(p.Steps, Step{Op: &OpSpec{Op: "upgrade", Chart: g.N(len(p.Charts)), MaxHistory: 2, TimeoutS: 60}})
		}
		p.Steps = append(p.Steps, Step{Op: &OpSpec{Op: "uninstall", KeepHistory: true, TimeoutS: 60}})
		first := Step{Op: &OpSpec{Op: "install", Chart: g.N(len(p.Charts)), Replace: true, NoHooks: true, TimeoutS: 60}}
		first.Faults = []FaultSpec{{Kind: FReject, Code: 403, Pred: &Pred{Storage: boolp(false), Mutating: boolp(true), PathHas: "/namespaces/", Nth: 1}}}
		p.Steps = append(p.Steps, first)
		p.Steps = append(p.Steps, Step{Op: &OpSpec{Op: "install", Chart: g.N(len(p.Charts)), Replace: true, TimeoutS: 60}})
		p.Variant = "replace-chain"
		p.Policy = "uniform"
		p.Schedule = g.Schedule(48)
		return p.Clone()
	}
	switch g.Weighted(3, 5, 3) {
	case 0:
		p.Variant = "clean"
	case 1:
		p.Variant = "faults"
		nf := 1 + g.N(3)
		for i := 0; i < nf; i++ {
			si := g.N(len(p.Steps))
			p.Steps[si].Faults = append(p.Steps[si].Faults, g.randomFault(p.Backend, false))
		}
	case 2:
		p.Variant = "crash"
		si := g.N(len(p.Steps))
		p.Steps[si].Faults = append(p.Steps[si].Faults, g.randomFault(p.Backend, true))
		// make sure something follows the crash
		for k := 0; k < 1+g.N(2); k++ {
			op := g.Op(len(p.Steps), ho)
			p.Steps = append(p.Steps, Step{Op: &op})
		}
	}
	if g.Chance(0.1) {
		p.Steps[g.N(len(p.Steps))].JumpS = 3600 * (1 + g.N(48))
	}
	p.Policy = "uniform"
	p.Schedule = g.Schedule(48)
	return p.Clone()
}

// randomFault draws one fault. Positions beyond the number of seam calls of
// the operation simply never fire (the evidence counts faults that fired).
func (g *Gen) randomFault(backend string, crash bool) FaultSpec {
	f := FaultSpec{}
	if backend == "memory" {
		// The memory driver cannot fail in a real deployment and a process
		// that dies takes the memory store with it: only cluster-side faults
		// are meaningful here.
		crash = false
	}
	if crash {
		f.Kind = g.Pick(FCrashBefore, FCrashAfter)
	} else {
		switch g.Weighted(4, 2, 2, 1, 2, 2) {
		case 0:
			f.Kind = FReject
			f.Code = []int{403, 409, 422, 429, 500, 503}[g.N(6)]
			f.Sticky = g.Chance(0.7)
		case 1:
			f.Kind = FDrop
			f.Sticky = g.Chance(0.5)
		case 2:
			f.Kind = FLostResponse
		case 3:
			f.Kind = FStall
		case 4:
			f.Kind = FNotReady
			f.Pred = &Pred{Nth: 1 + g.N(2)}
			return f
		case 5:
			f.Kind = FHookFail
			f.Pred = &Pred{Nth: 1 + g.N(3)}
			return f
		}
	}
	// position: either absolute k, or biased into in-flight state
	switch g.Weighted(5, 3, 3) {
	case 0:
		f.K = 10 + g.N(40)
	case 1: // a storage write
		f.Pred = &Pred{Storage: boolp(true), Mutating: boolp(true), Nth: 1 + g.N(4)}
	case 2: // a cluster mutation of a release resource
		f.Pred = &Pred{Storage: boolp(false), Mutating: boolp(true), Nth: 1 + g.N(5)}
	}
	return f
}

// ---- single-fault sweep ----

func sweepBaseC01(seed, index uint64, tier string) *Plan {
	g := NewGen(seed, index, 101)
	p := &Plan{Check: "C01", Seed: seed, Index: index, Variant: "sweep-base", Namespace: "ns1", Release: "rel", ClientTOs: 30}
	p.Backend = g.Backend()
	co := g.SwarmChartOpts()
	co.MaxRes = 1 + g.N(3)
	p.Charts = g.ChartFamily(co)
	ho := &HistoryOpts{NVersions: len(p.Charts), Flags: true, MaxHistory: g.Chance(0.5), WaitP: 0.5, AtomicP: 0.3, FirstInst: 1}
	n := 1 + g.Weighted(2, 4, 4, 2)
	for i := 0; i < n; i++ {
		op := g.Op(i, ho)
		p.Steps = append(p.Steps, Step{Op: &op})
	}
	p.Policy = "uniform"
	p.Schedule = g.Schedule(32)
	return p.Clone()
}

func isDiscoveryPath(path string) bool {
	switch {
	case path == "/api", path == "/apis", path == "/api/v1":
		return true
	case strings.HasPrefix(path, "/apis/") && strings.Count(path, "/") == 3:
		return true
	}
	return false
}

// sweepKindsC01: every fault kind that can hit the given seam call.
func sweepKindsC01(p *Plan, step int, call string) []FaultSpec {
	parts := strings.SplitN(call, " ", 2)
	verb, path := parts[0], ""
	if len(parts) > 1 {
		path = parts[1]
	}
	switch verb {
	case "WAIT", "WAITDEL":
		return []FaultSpec{{Kind: FNotReady}}
	case "WATCH":
		return []FaultSpec{{Kind: FHookFail}}
	case "STORE":
		return nil // the memory driver cannot fail in a real deployment
	}
	if isDiscoveryPath(path) {
		return nil
	}
	fs := []FaultSpec{{Kind: FReject, Code: 500, Sticky: true}, {Kind: FDrop, Sticky: true}}
	mut := verb == "POST" || verb == "PUT" || verb == "PATCH" || verb == "DELETE"
	if mut {
		fs = append(fs, FaultSpec{Kind: FLostResponse})
	}
	if p.Backend != "memory" {
		fs = append(fs, FaultSpec{Kind: FCrashBefore})
		if mut {
			fs = append(fs, FaultSpec{Kind: FCrashAfter})
		}
	}
	return fs
}
