package sim

// C02 — after a successful operation the cluster matches the recorded manifest.

import (
	"fmt"
	"sort"
	"strings"
)

// unownedChanges lists objects outside the release's manifests, hooks and
// records that differ between two snapshots.
func (x *Exec) unownedChanges(so *StepObs, op *OpSpec) []string {
	var out []string
	keys := map[string]bool{}
	for k := range so.Before.Cluster {
		keys[k] = true
	}
	for k := range so.After.Cluster {
		keys[k] = true
	}
	for _, k := range sortedIDs(keys) {
		b, a := so.Before.Cluster[k], so.After.Cluster[k]
		var id ObjID
		if b != nil {
			id = b.ID
		} else {
			id = a.ID
		}
		if x.Owned[k] || x.isRecordID(id) && strings.HasPrefix(id.Name, "sh.helm.release.v1."+x.Plan.Release+".v") {
			continue
		}
		if id.Kind == "Namespace" && id.Name == x.Plan.Namespace && op != nil && op.CreateNamespace {
			continue
		}
		if id.Kind == "CustomResourceDefinition" {
			continue // crds/ are installed outside the manifest by design
		}
		switch {
		case b == nil:
			out = append(out, "created "+k)
		case a == nil:
			out = append(out, "deleted "+k)
		case a.RV != b.RV:
			out = append(out, "changed "+k)
		}
	}
	return out
}

func oracleC02(x *Exec, so *StepObs) {
	if so.After == nil || len(so.Results) != 1 {
		return
	}
	const P = "C02"
	r := so.Results[0]
	op := &r.Op
	opName := opSigName(op)
	if !r.OK || r.Crashed || isDryOp(op) || !allAccepted(r) {
		return
	}
	ns := x.Plan.Namespace
	ctx := ledgerCtx(so.Before)
	class := "none"
	fail := func(clause, detail string) {
		x.Violate(Violation{P, clause, opName, class + ctx, detail, so.Index})
		x.stop = true
	}
	switch op.Op {
	case "install", "upgrade", "rollback":
		created := createdRev(so)
		if created == 0 {
			return
		}
		lr := so.After.Rev(created)
		x.Res.Checks += 3
		if msg, cl := clusterMatchesClass(lr.Manifest, ns, so.After.Cluster); msg != "" {
			class = cl
			fail("a-manifest-applied", fmt.Sprintf("revision %d: %s", created, msg))
			return
		}
		newIDs := idSet(ManifestIDs(lr.Manifest, ns))
		prevDeployed := so.Before.Deployed()
		if len(prevDeployed) > 1 {
			// a ledger with two revisions marked deployed is itself a recorded finding (install --replace over a failed
			// revision); "the previously deployed revision" is then the newest of them, the one Helm and the user mean
			sort.Ints(prevDeployed)
			prevDeployed = prevDeployed[len(prevDeployed)-1:]
			x.Sim.Probe("c02-two-deployed-before")
		}
		if len(prevDeployed) == 0 {
			// no revision is marked deployed (a failed operation re-labelled it): "the previously deployed
			// manifest" is then that of the most recent revision that was observed deployed and still exists
			best := 0
			for rev := range x.everDepBefore(so) {
				if rev > best {
					best = rev
				}
			}
			// which operation took the deployed mark away without deploying anything else?
			lostBy := ""
			for i := len(x.Steps) - 1; i >= 0; i-- {
				st := x.Steps[i]
				if st.Index >= so.Index || st.Before == nil || st.After == nil {
					continue
				}
				if len(st.Before.Deployed()) > 0 && len(st.After.Deployed()) == 0 {
					if len(st.Results) == 1 {
						lostBy = st.Results[0].Op.Op
					}
					break
				}
			}
			// after an uninstall the question is moot (uninstall applied its own keep rules)
			if best != 0 && lostBy != "" && lostBy != "uninstall" {
				prevDeployed = []int{best}
				class = "no-revision-marked-deployed:lost-by-failed-" + lostBy
			}
		}
		for _, d := range prevDeployed {
			old := so.Before.Rev(d)
			for _, id := range ManifestIDs(old.Manifest, ns) {
				if newIDs[id.String()] {
					continue
				}
				live := so.After.Cluster[id.String()]
				if live == nil {
					// gone: fine unless the live object carried the keep policy when the operation started
					if was := so.Before.Cluster[id.String()]; was != nil {
						if v, ok := objAnnotation(was, "helm.sh/resource-policy"); ok && v == "keep" {
							class = "live-keep-ignored"
							fail("b-keep-respected", fmt.Sprintf("%s carried helm.sh/resource-policy=keep on the live object, was dropped from the manifest (revision %d -> %d) and has been deleted", id, d, created))
							return
						}
					}
					x.Sim.Probe("obsolete-resource-deleted")
					continue
				}
				if v, ok := objAnnotation(live, "helm.sh/resource-policy"); ok && v == "keep" {
					x.Sim.Probe("obsolete-resource-kept")
					continue
				}
				fail("b-obsolete-deleted", fmt.Sprintf("%s was in the manifest of deployed revision %d, is not in revision %d, and still exists without the keep policy", id, d, created))
				return
			}
		}
		if ch := x.unownedChanges(so, op); len(ch) > 0 {
			fail("c-bystanders-untouched", strings.Join(ch, "; "))
			return
		}
	case "uninstall":
		if len(so.Before.Ledger) == 0 {
			return
		}
		x.Res.Checks += 2
		last := so.Before.Ledger[len(so.Before.Ledger)-1]
		for _, d := range ParseManifest(last.Manifest, ns) {
			pol, has := docAnnotation(d, "helm.sh/resource-policy")
			if has {
				class = "policy=" + strings.ToLower(strings.TrimSpace(pol))
			} else {
				class = "no-policy"
			}
			live := so.After.Cluster[d.ID.String()]
			before := so.Before.Cluster[d.ID.String()]
			if has && isKeep(pol) {
				x.Sim.Probe("uninstall-kept")
				if before != nil && (live == nil || live.RV != before.RV) {
					fail("d-uninstall-keeps", fmt.Sprintf("%s has the keep policy but was deleted or changed by uninstall", d.ID))
					return
				}
				// an already-uninstalled release is only purged by a second uninstall; nothing is kept "now"
				if before != nil && last.Status != "uninstalled" && !strings.Contains(r.Info, "["+d.ID.Kind+"] "+d.ID.Name) {
					fail("d-uninstall-keeps", fmt.Sprintf("%s was kept but is not listed in the response info %q", d.ID, r.Info))
					return
				}
				continue
			}
			if live != nil {
				fail("d-uninstall-removes", fmt.Sprintf("%s of the latest revision's manifest still exists after uninstall (resource-policy annotation: %q present=%v)", d.ID, pol, has))
				return
			}
		}
		if ch := x.unownedChanges(so, op); len(ch) > 0 {
			fail("c-bystanders-untouched", strings.Join(ch, "; "))
			return
		}
	}
}

// genC02: fault-free histories interleaved with out-of-band edits and deletes
// of live objects, with bystander objects planted before the run.
func genC02(seed, index uint64, tier string) *Plan {
	g := NewGen(seed, index, 2)
	p := &Plan{Check: "C02", Seed: seed, Index: index, Namespace: "ns1", Release: "rel", ClientTOs: 30}
	p.Backend = g.Backend()
	co := g.SwarmChartOpts()
	co.Keep = g.Chance(0.6)
	p.Charts = g.ChartFamily(co)
	if co.Keep && g.Chance(0.3) {
		// an annotation value other than "keep" must not protect the resource
		for ci := range p.Charts {
			for si := range p.Charts[ci].Slots {
				if p.Charts[ci].Slots[si].Keep == "keep" && g.Chance(0.3) {
					p.Charts[ci].Slots[si].Keep = g.Pick("delete", "Keep", " keep ", "none")
				}
			}
		}
	}
	if g.Chance(0.3) {
		// several resources share ONE name across kinds (and across namespaces): identity is more than the name
		for ci := range p.Charts {
			for si := range p.Charts[ci].Slots {
				s := &p.Charts[ci].Slots[si]
				if s.Hook != nil {
					continue
				}
				switch s.Kind {
				case "ConfigMap", "Secret", "ServiceAccount", "Service", "Widget":
					if strings.HasSuffix(s.Name, "1") {
						s.Name = "shared"
					}
					if strings.HasSuffix(s.Name, "2") && s.Kind == "ConfigMap" {
						s.Name, s.NS = "shared", "other"
					}
				}
			}
		}
	}
	if g.Chance(0.15) && len(p.Charts) > 1 {
		// a resource keeps kind, name and namespace but is served by another API group in some chart versions
		// (like Ingress moving from extensions to networking.k8s.io): the old group's object must go, the new one must exist
		odd := g.N(2)
		for ci := range p.Charts {
			has := false
			for si := range p.Charts[ci].Slots {
				s := &p.Charts[ci].Slots[si]
				if s.Kind == "Widget" && s.Hook == nil {
					has = true
					if ci%2 == odd {
						s.Group = "legacy.example"
					}
				}
			}
			if !has {
				s := ResSlot{Kind: "Widget", Name: "moving", File: "moving.yaml", Marker: g.Marker(), Data: map[string]string{"size": g.Word()}}
				if ci%2 == odd {
					s.Group = "legacy.example"
				}
				p.Charts[ci].Slots = append(p.Charts[ci].Slots, s)
			}
		}
	}
	if g.Chance(0.12) && len(p.Charts) > 1 {
		// a resource keeps kind, name, namespace and group but is written at another version of the group in some chart
		// versions (like PodDisruptionBudget policy/v1beta1 -> policy/v1): it is the same object and must survive the upgrade
		odd := g.N(2)
		for ci := range p.Charts {
			has := false
			for si := range p.Charts[ci].Slots {
				s := &p.Charts[ci].Slots[si]
				if s.Kind == "Widget" && s.Hook == nil && s.Group == "" {
					has = true
					if ci%2 == odd {
						s.APIVer = "v1beta1"
					}
				}
			}
			if !has {
				s := ResSlot{Kind: "Widget", Name: "bumped", File: "bumped.yaml", Marker: g.Marker(), Data: map[string]string{"size": g.Word()}}
				if ci%2 == odd {
					s.APIVer = "v1beta1"
				}
				p.Charts[ci].Slots = append(p.Charts[ci].Slots, s)
			}
		}
	}
	// bystanders
	for i := 0; i < g.N(4); i++ {
		kind := g.Pick("ConfigMap", "Secret", "Service", "ServiceAccount")
		name := fmt.Sprintf("bystander-%d", i)
		if g.Chance(0.2) {
			name = fmt.Sprintf("%s%d", kindPrefix(kind), 7+i) // near the chart's own names
		}
		obj := map[string]interface{}{"metadata": map[string]interface{}{"labels": map[string]interface{}{"app": "bystander"}}}
		if kind == "ConfigMap" {
			obj["data"] = map[string]interface{}{"x": g.Word()}
		}
		p.Planted = append(p.Planted, OobSpec{Action: "create", Kind: kind, Name: name, Obj: obj})
	}
	ho := &HistoryOpts{NVersions: len(p.Charts), Flags: true, MaxHistory: g.Chance(0.2), WaitP: 0.3, AtomicP: 0.1, FirstInst: 0.95, NoTakeOwner: true}
	n := 2 + g.Weighted(3, 4, 4, 3, 2)
	for i := 0; i < n; i++ {
		op := g.Op(i, ho)
		// --force replaces live objects (GET + PUT) instead of patching them; the result must match the manifest just the same
		op.Force = (op.Op == "upgrade" || op.Op == "rollback") && g.Chance(0.15)
		st := Step{Op: &op}
		if i > 0 && i < n-1 && (op.Op == "upgrade" || op.Op == "rollback") && g.Chance(0.2) {
			// an operation that fails in the middle of the history: afterwards the deployed revision is not the last one.
			// The faulted step itself is not judged (the cluster did not accept every request).
			st.Faults = []FaultSpec{{Kind: FReject, Code: 403, Pred: &Pred{Storage: boolp(false), Mutating: boolp(true), PathHas: "/namespaces/", Nth: 1 + g.N(3)}}}
		}
		p.Steps = append(p.Steps, st)
		if g.Chance(0.45) {
			p.Steps = append(p.Steps, Step{Oob: g.oobAgainst(p)})
		}
	}
	p.Variant = "oob"
	p.Policy = "uniform"
	p.Schedule = g.Schedule(48)
	return p.Clone()
}

// oobAgainst draws an out-of-band action aimed at an object one of the chart
// versions defines.
func (g *Gen) oobAgainst(p *Plan) *OobSpec {
	cs := &p.Charts[g.N(len(p.Charts))]
	var cand []*ResSlot
	for i := range cs.Slots {
		if cs.Slots[i].Hook == nil && cs.Slots[i].Kind != "" && cs.Slots[i].Group == "" {
			cand = append(cand, &cs.Slots[i])
		}
	}
	if len(cand) == 0 {
		return &OobSpec{Action: "create", Kind: "ConfigMap", Name: "oob-extra", Obj: map[string]interface{}{}}
	}
	s := cand[g.N(len(cand))]
	o := &OobSpec{Kind: s.Kind, Name: s.Name}
	switch g.Weighted(5, 2, 2, 2) {
	case 0: // edit a field the manifest sets
		o.Action = "edit"
		switch s.Kind {
		case "ConfigMap":
			o.Field, o.Value = "data|k0", "drifted"
		case "Secret":
			o.Field, o.Value = "data|k0", "ZHJpZnRlZA=="
		case "Service":
			o.Field, o.Value = "spec|selector|app", "drifted"
		case "Deployment":
			o.Field, o.Value = "spec|replicas", float64(9)
		case "ServiceAccount":
			o.Field, o.Value = "automountServiceAccountToken", true
		case "ClusterRole":
			o.Field, o.Value = "rules", []interface{}{map[string]interface{}{"apiGroups": []interface{}{""}, "resources": []interface{}{"secrets"}, "verbs": []interface{}{"get"}}}
		case "Widget":
			o.Field, o.Value = "spec|k0", "drifted"
		default:
			o.Field, o.Value = "metadata|labels|drift", "yes"
		}
	case 1: // add a foreign field
		o.Action = "edit"
		o.Field, o.Value = "metadata|labels|foreign", "yes"
	case 2:
		o.Action = "delete"
	case 3: // toggle the keep annotation on the live object
		o.Action = "edit"
		o.Field = "metadata|annotations|helm.sh/resource-policy"
		if g.Chance(0.6) {
			o.Value = "keep"
		} else {
			o.Value = nil
		}
	}
	return o
}
