#!/bin/bash
# Development aid: run quick checks against a scratch worktree of helm/helm that carries a
# property-breaking change (never against /repo, which background runs may be using).
#   tools/mutant_run.sh <worktree> <check> [<check>...]
# Prints, per check, DETECTED (VIOLATION printed), MISSED (exit 0) or TROUBLE (exit 2).
wt=$1; shift
# one run at a time: the scratch-worktree engine binary (sim-alt.test) is shared
exec 9>/tmp/verif-mutant-run.lock
flock 9
for c in "$@"; do
  out=$(cd /verif && VERIF_REPO=$wt VERIF_BUDGET_S=${VERIF_BUDGET_S:-60} ./check $c quick 2>&1)
  rc=$?
  if echo "$out" | grep -q "^VIOLATION"; then
    echo "$c DETECTED rc=$rc"; echo "$out" | grep -A3 "^VIOLATION" | head -8 | cut -c1-300
  elif [ $rc -eq 0 ]; then echo "$c MISSED"
  else echo "$c TROUBLE rc=$rc"; echo "$out" | grep -v "^WARNING" | tail -5 | cut -c1-300
  fi
done
