#!/bin/bash
# Runs every hand-made sensitivity patch against a scratch worktree (development aid).
wt=${1:-/tmp/wt-self}
for p in /verif/mutants/*.patch; do
  name=$(basename $p .patch); check=${name%%-*}
  git -C $wt checkout -q -- . && git -C $wt apply $p || { echo "$name APPLY-FAILED"; continue; }
  echo "=== $name"
  VERIF_BUDGET_S=${VERIF_BUDGET_S:-40} /verif/tools/mutant_run.sh $wt $check
  git -C $wt checkout -q -- .
done
