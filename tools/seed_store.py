#!/usr/bin/env python3
"""Stores a confirmed sub-agent change under /verif/seeded/<id>/ (patch.diff, demo, meta.json)."""
import json, os, re, shutil, sys
sid, note = sys.argv[1], (sys.argv[2] if len(sys.argv) > 2 else "")
src = "/tmp/mut-" + sid
dst = "/verif/seeded/" + sid
os.makedirs(dst, exist_ok=True)
shutil.copyfile(src + "/patch.diff", dst + "/patch.diff")
shutil.copyfile(src + "/demo_test.go", dst + "/demo_test.go.txt")  # .txt: must not be compiled as part of any package
meta = json.load(open(src + "/meta.json"))
log = open("/tmp/confirm-%s.log" % sid).read()
checks = {}
for m in re.finditer(r"^(C\d\d) (DETECTED|MISSED|TROUBLE)", log, re.M):
    checks[m.group(1)] = m.group(2)
sigs = re.findall(r"signature: (\S+)", log)
meta.update(dict(
    id=sid,
    origin="written by an independent sub-agent that saw only the property text and a scratch worktree",
    confirmed=dict(
        how="tools/seed_confirm.sh %s: demo passes on the clean worktree, fails with patch.diff applied; existing tests of the touched packages + pkg/action + pkg/cmd pass with the patch (baseline-flaky tests tolerated)" % sid,
        demo_without_change="pass", demo_with_change="fail", existing_tests="pass"),
    checks_run=checks,
    signatures_reported=sorted(set(sigs))[:6],
    note=note,
))
json.dump(meta, open(dst + "/meta.json", "w"), indent=1)
print(sid, checks, sorted(set(sigs))[:3])
