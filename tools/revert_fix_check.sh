#!/bin/bash
# Development aid: reverts each "fix:" commit in a scratch worktree and confirms the named check reports the violation again.
wt=${1:-/tmp/wt-self}
while read commit check; do
  git -C $wt checkout -q -- . 
  git -C /repo show $commit -- . ':!*_test.go' | git -C $wt apply -R || { echo "$commit REVERT-FAILED"; continue; }
  echo "=== revert $commit ($(git -C /repo log -1 --format=%s $commit | cut -c1-70))"
  VERIF_BUDGET_S=${VERIF_BUDGET_S:-40} /verif/tools/mutant_run.sh $wt $check | head -4
  git -C $wt checkout -q -- .
done <<LIST
f9611f1 C02
b11c80d C03
9c09e87 C10
a82f9f4 C20
6b46e2e C20
20874d9 C05
15b6b37 C05
3cfb02f C20
04e88f3 C20
4ac3266 C20
32dce03 C20
85aecbd C20
b5b2aae C19
436911d C14
3b6c4f6 C19
LIST
