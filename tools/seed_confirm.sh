#!/bin/bash
# Confirms a property-breaking change produced by an independent sub-agent and runs our checks on it.
#   tools/seed_confirm.sh <id> <check> [<more checks>]      (expects /tmp/mut-<id>/{patch.diff,demo_test.go,meta.json} and worktree /tmp/wt-<id>)
# Steps: clean worktree -> demo must PASS without the patch -> apply patch -> build -> demo must FAIL ->
# existing tests of the touched packages (+ pkg/action, pkg/cmd) must pass -> run the checks against the worktree.
id=$1; shift
wt=/tmp/wt-$id; m=/tmp/mut-$id
export GOFLAGS=-mod=mod GOPROXY=off
[ -f $m/patch.diff ] || { echo "no patch for $id"; exit 2; }
demo_path=$(python3 -c "import json;print(json.load(open('$m/meta.json'))['demo_path'])" 2>/dev/null)
demo_cmd=$(python3 -c "import json;print(json.load(open('$m/meta.json'))['demo_cmd'])" 2>/dev/null)
cd $wt && git checkout -q -- . && git clean -fdq
mkdir -p $(dirname $wt/$demo_path) && cp $m/demo_test.go $wt/$demo_path
echo "--- demo without the change (must pass)"
( cd $wt && eval "$demo_cmd" ) > $m/demo_without.log 2>&1; r0=$?; tail -3 $m/demo_without.log | cut -c1-200
git apply $m/patch.diff || { echo "PATCH DOES NOT APPLY"; exit 2; }
go build ./... || { echo "DOES NOT BUILD"; exit 2; }
echo "--- demo with the change (must fail)"
( cd $wt && eval "$demo_cmd" ) > $m/demo_with.log 2>&1; r1=$?; tail -3 $m/demo_with.log | cut -c1-200
pkgs=$(git diff --name-only | grep '\.go$' | grep -v _test.go | xargs -n1 dirname | sort -u | sed 's|^|./|' | tr '\n' ' ')
rm -f $wt/$demo_path
echo "--- existing tests of $pkgs ./pkg/action ./pkg/cmd (must pass)"
go test -vet=off -count=1 $pkgs ./pkg/action/ ./pkg/cmd/ > $m/existing_tests.log 2>&1; r2=$?
if [ $r2 -ne 0 ]; then
  # tests that the baseline itself lists as flaky or always failing (network) do not count
  bad=$(grep -- "^--- FAIL: \|^    --- FAIL: " $m/existing_tests.log | awk '{print $3}' | sort -u | python3 -c "
import json,sys
b=json.load(open('/root/.vp/BASELINE.json'))
tol=set(t.split('::')[1].split('/')[0] for t in b['flaky']+b['always_fail'])
print(' '.join(t for t in sys.stdin.read().split() if t.split('/')[0] not in tol))")
  if [ -z "$bad" ] && ! grep -q "^panic:\|build failed" $m/existing_tests.log; then echo "(only baseline-flaky tests failed)"; r2=0; else echo "FAILED existing tests: $bad"; fi
fi
echo "demo_without_rc=$r0 demo_with_rc=$r1 existing_tests_rc=$r2"
if [ $r0 -ne 0 ] || [ $r1 -eq 0 ] || [ $r2 -ne 0 ]; then echo "NOT CONFIRMED"; exit 1; fi
echo "CONFIRMED; running checks: $@"
/verif/tools/mutant_run.sh $wt "$@" | tee $m/checks.log
